#!/bin/sh
# Runs the repository's baseline test command (guard off) and prints the summary line.
cd /repo && env -u PHYST_VERIF /venv/bin/python -m pytest -ra -q -p no:cacheprovider --timeout=900 --continue-on-collection-errors "$@" 2>&1 | tail -8
