"""Core data types of the property-based checking framework.

A *sub-check* is a function ``check(case, ctx)`` over a plain-data ``case`` (JSON-able
nested lists / dicts / numbers / strings).  It raises :class:`Violation` when the
property is broken on that case, labels the case through ``ctx`` and returns nothing
otherwise.  Hypothesis strategies only *draw* cases; everything else is ordinary Python,
so a saved case can be replayed without the library.
"""
from __future__ import annotations

import hashlib
import json
import math
import os
import traceback
from dataclasses import dataclass, field
from typing import Any, Callable, Dict, List, Optional

REFUSAL_TYPES = (
    ValueError,
    TypeError,
    IndexError,
    KeyError,
    RuntimeError,
    NotImplementedError,
    ZeroDivisionError,
)
"""Exception types physt documents / uses for "refused with an error"."""


class Violation(Exception):
    """The property does not hold on this case."""

    def __init__(self, kind: str, detail: str = "", frame: str = ""):
        super().__init__(f"{kind}: {detail}")
        self.kind = kind
        self.detail = detail
        self.frame = frame  # innermost physt frame for crashes, "" otherwise

    def bucket(self, sub: str) -> str:
        return f"{sub}|{self.kind}|{self.frame}"


class HarnessError(Exception):
    """Something is wrong with the checking machinery itself (never a violation)."""


class Ctx:
    """Per-case context: labels, non-triviality, helper for calling the code under test."""

    def __init__(self) -> None:
        self.labels: set = set()
        self.nontrivial = False
        self.notes: Dict[str, Any] = {}

    def label(self, *names: str) -> None:
        for n in names:
            self.labels.add(n)

    def nt(self, cond: bool = True) -> None:
        if cond:
            self.nontrivial = True

    # -- calling the implementation -------------------------------------------------
    def call(self, what: str, fn: Callable, *args, **kwargs):
        """Call into physt for an input *inside* the documented domain.

        Any exception is a violation ("raised on valid input"), bucketed by exception
        type and innermost physt frame.
        """
        try:
            return fn(*args, **kwargs)
        except Violation:
            raise
        except Exception as exc:  # noqa: BLE001 - by design
            raise Violation(
                f"raised:{type(exc).__name__}",
                f"{what}: {type(exc).__name__}: {str(exc)[:200]}",
                frame=innermost_physt_frame(exc),
            ) from exc

    def refused(self, what: str, fn: Callable, *args, **kwargs) -> Optional[BaseException]:
        """Call something that must be refused; return the exception, raise Violation
        if it is silently accepted."""
        try:
            result = fn(*args, **kwargs)
        except REFUSAL_TYPES as exc:
            return exc
        except Violation:
            raise
        except Exception as exc:  # other exception types still are "an error"
            return exc
        raise Violation("not_refused", f"{what}: accepted, returned {short(result)}")

    def maybe(self, fn: Callable, *args, **kwargs):
        """Call something that may legitimately be refused. Returns (ok, value|exc)."""
        try:
            return True, fn(*args, **kwargs)
        except Violation:
            raise
        except Exception as exc:  # noqa: BLE001
            return False, exc


def short(obj: Any, n: int = 160) -> str:
    s = repr(obj)
    return s if len(s) <= n else s[: n - 3] + "..."


def innermost_physt_frame(exc: BaseException) -> str:
    tb = traceback.extract_tb(exc.__traceback__)
    for fr in reversed(tb):
        fn = fr.filename.replace("\\", "/")
        if "/physt/" in fn and "/pbt/" not in fn:
            return f"{fn.split('/physt/')[-1]}:{fr.name}"
    return ""


def fail(kind: str, detail: str = "") -> None:
    raise Violation(kind, detail)


def require(cond: bool, kind: str, detail: str = "") -> None:
    if not cond:
        raise Violation(kind, detail() if callable(detail) else detail)


@dataclass
class Sub:
    """A sub-check of a property."""

    name: str
    strategy: Callable[[str], Any]  # tier -> hypothesis strategy producing a case
    check: Callable[[Any, Ctx], None]
    quick: int = 300  # number of generated cases in the quick tier (all shards together)
    thorough: int = 6000  # per shard in the thorough tier
    doc: str = ""


@dataclass
class Finding:
    id: str
    match: Callable[[str, Any, Violation], bool]
    what: str = ""


def canon(case: Any) -> str:
    return json.dumps(case, sort_keys=True, default=_json_default, allow_nan=True)


def digest(case: Any) -> str:
    return hashlib.sha1(canon(case).encode()).hexdigest()[:16]


def _json_default(o: Any):
    import numpy as np

    if isinstance(o, (np.integer,)):
        return int(o)
    if isinstance(o, (np.floating,)):
        return float(o)
    if isinstance(o, np.ndarray):
        return o.tolist()
    if isinstance(o, (set, frozenset)):
        return sorted(o)
    if isinstance(o, tuple):
        return list(o)
    if isinstance(o, bytes):
        return o.hex()
    return repr(o)


def dump_case(path: str, payload: Dict[str, Any]) -> None:
    os.makedirs(os.path.dirname(path), exist_ok=True)
    with open(path, "w", encoding="utf-8") as f:
        json.dump(payload, f, indent=1, sort_keys=True, default=_json_default, allow_nan=True)
        f.write("\n")


def load_case(path: str) -> Dict[str, Any]:
    with open(path, "r", encoding="utf-8") as f:
        return json.load(f)


def derive_seed(seed: int, name: str, shard: int, round_: int = 0) -> int:
    h = hashlib.sha256(f"{seed}:{name}:{shard}:{round_}".encode()).hexdigest()
    return int(h[:12], 16)


def isnan(x: Any) -> bool:
    try:
        return math.isnan(float(x))
    except (TypeError, ValueError):
        return False
