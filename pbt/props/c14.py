"""C14 — statistics are those of the raw data entered, not of the bins."""
from __future__ import annotations

import math
from fractions import Fraction

import numpy as np
from hypothesis import strategies as st

from pbt import gen, hgen, model
from pbt.core import Ctx, Finding, Sub, Violation, require
from pbt.model import F

LEVEL = "exploration"
RULE = (
    "A case is an entry history for a 1-D histogram over bins that cover all generated values (values on edges, "
    "midpoints, uniform inside; offsets up to 1e9): stages construct(values, weights) / fill one by one / fill_n in "
    "chunks (empty chunks included) / add a partial histogram (+, +=, sum) / copy / positive rescaling (*, /, "
    "normalize), followed by an optional invalidating operation (subtraction, array arithmetic under free "
    "arithmetics, construction from bare frequencies, slicing). Reference: exact Fractions of sum w, sum w x, sum w x^2, "
    "min, max. Non-trivial: >= 2 different entry paths with non-unit weights, or a rescaling, or an invalidating "
    "operation. distinct = SHA-1 of the canonical history."
)
ASSUMPTIONS = [
    "tolerances follow the forward bound for summing n terms: sum/sum2/weight within (n+8+2k) eps sum|terms|, mean within "
    "the same bound divided by the weight, variance within (2n+64+4k) eps (sum w x^2 / sum w); min/max exact",
    "values lie within the bins (fill ignores values outside them, fill_n does not - the statement restricts itself to in-range values)",
]

EPS = 2.0 ** -52


class Ref:
    def __init__(self):
        self.sw = self.swx = self.swx2 = Fraction(0)
        self.aw = self.awx = self.awx2 = 0.0  # sums of absolute terms (tolerances)
        self.lo, self.hi = math.inf, -math.inf
        self.n = 0
        self.k = 0
        self.values = []  # for the median
        self.median_known = False
        self.unit_weights = True

    def enter(self, x, w):
        w_, x_ = F(w), F(x)
        self.sw += w_
        self.swx += w_ * x_
        self.swx2 += w_ * x_ * x_
        self.aw += abs(float(w_))
        self.awx += abs(float(w_) * x)
        self.awx2 += abs(float(w_) * x * x)
        self.lo, self.hi = min(self.lo, x), max(self.hi, x)
        self.n += 1
        self.values.append(x)
        if w_ != 1:
            self.unit_weights = False

    def scale(self, c: Fraction):
        self.sw *= c
        self.swx *= c
        self.swx2 *= c
        fc = abs(float(c))
        self.aw *= fc
        self.awx *= fc
        self.awx2 *= fc
        self.k += 1
        self.unit_weights = False


def assert_stats(ctx, h, ref: Ref, what):
    s = h.statistics
    g = (ref.n + 8 + 2 * ref.k) * EPS
    tiny = 1e-300
    require(abs(F(s.weight) - ref.sw) <= Fraction(g * ref.aw + tiny), "weight", f"{what}: {s.weight!r} want {float(ref.sw)!r}")
    require(abs(F(s.sum) - ref.swx) <= Fraction(g * ref.awx + tiny), "sum", f"{what}: {s.sum!r} want {float(ref.swx)!r} (tol {g * ref.awx})")
    require(abs(F(s.sum2) - ref.swx2) <= Fraction(g * ref.awx2 + tiny), "sum2", f"{what}: {s.sum2!r} want {float(ref.swx2)!r}")
    if ref.n:
        require(float(s.min) == ref.lo and float(s.max) == ref.hi, "minmax", f"{what}: {s.min!r},{s.max!r} want {ref.lo!r},{ref.hi!r}")
    else:
        require(float(s.weight) == 0, "empty_weight", f"{what}: {s.weight!r}")
    mean = s.mean()
    if ref.sw > 0:
        want = ref.swx / ref.sw
        tol = 2 * g * ref.awx / float(ref.sw) + tiny
        require(not math.isnan(mean) and abs(F(mean) - want) <= Fraction(tol), "mean", f"{what}: {mean!r} want {float(want)!r} (tol {tol})")
        var = s.variance()
        wantv = ref.swx2 / ref.sw - want * want
        vtol = (2 * ref.n + 64 + 4 * ref.k) * EPS * (ref.awx2 / float(ref.sw)) + tiny
        require(not math.isnan(var) and abs(F(var) - wantv) <= Fraction(vtol), "variance", f"{what}: {var!r} want {float(wantv)!r} (tol {vtol})")
        sd = s.std()
        if var >= 0:
            require(sd == math.sqrt(var) or abs(sd - math.sqrt(var)) <= 4 * EPS * math.sqrt(var), "std", f"{what}: {sd!r} vs sqrt({var!r})")
    elif ref.sw == 0:
        require(math.isnan(mean), "empty_mean_not_nan", f"{what}: {mean!r}")
    med = float(s.median)
    if ref.median_known:
        want = float(np.median(np.array(ref.values))) if ref.values else math.nan
        if ref.unit_weights:
            require((math.isnan(want) and math.isnan(med)) or med == want, "median", f"{what}: {med!r} want {want!r}")
        else:
            require(math.isnan(med) or med == want, "median", f"{what}: {med!r} want NaN or {want!r}")
    else:
        require(math.isnan(med), "median_not_reset", f"{what}: median {med!r} after fill/add")


def _warr(ws):
    return np.array(ws, dtype=np.int64 if all(isinstance(x, int) for x in ws) else np.float64)


def check_history(case, ctx: Ctx):
    import physt
    from physt.config import config
    from physt.histogram1d import Histogram1D

    ps = case["pairs"]
    edges = np.array([p[0] for p in ps] + [ps[-1][1]])

    def binning():
        from physt.binnings import NumpyBinning

        return NumpyBinning(edges.copy())

    ref = Ref()
    h = None
    paths = set()
    rescaled = False
    for k, stage in enumerate(case["stages"]):
        kind = stage["kind"]
        vals = [float(v) for v in stage.get("values", [])]
        ws = stage.get("weights")
        wl = [1] * len(vals) if ws is None else ws
        what = f"stage {k} {kind}"
        if kind == "construct" or (h is None and kind in ("partial_add", "partial_iadd", "partial_sum")):
            kw = {} if ws is None else {"weights": _warr(ws)}
            new = ctx.call(what, physt.h1, np.array(vals, dtype=float), binning(), **kw)
            if h is None:
                h = new
                ref.median_known = True
            else:
                h = ctx.call(what + " +", lambda: h + new)
                ref.median_known = False
            for v, w in zip(vals, wl):
                ref.enter(v, w)
            paths.add("construct")
            assert_stats(ctx, h, ref, what)
            continue
        if h is None:
            h = ctx.call("Histogram1D(binning)", Histogram1D, binning())
            assert_stats(ctx, h, ref, "empty histogram")
        if kind == "fill":
            for v, w in zip(vals, wl):
                va, wa = v, w
                vt, wt_ = stage.get("vtype"), stage.get("wtype")
                # scalars as they come out of numpy arrays of a narrow type: the numbers are the same
                if vt in ("np_int8", "np_int16") and float(v).is_integer() and abs(v) <= (127 if vt == "np_int8" else 32767):
                    va = (np.int8 if vt == "np_int8" else np.int16)(int(v))
                    ctx.label("fill_value_" + vt)
                elif vt == "np_float32":
                    va = np.float32(v)
                    if not (float(edges[0]) <= float(va) <= float(edges[-1])):
                        va = v
                    v = float(va)
                if ws is not None and wt_ in ("np_float32", "np_float16") and isinstance(w, float):
                    wa = (np.float32 if wt_ == "np_float32" else np.float16)(w)
                    w = float(wa)
                    ctx.label("fill_weight_" + wt_)
                ctx.call(what, h.fill, va) if ws is None else ctx.call(what, h.fill, va, wa)
                ref.enter(v, w)
                ref.median_known = False
            paths.add("fill")
        elif kind == "fill_n":
            cuts = sorted(set(c % (len(vals) + 1) for c in stage.get("cuts", [])))
            bounds = [0] + cuts + [len(vals)]
            for a, b in zip(bounds[:-1], bounds[1:]):
                chunk = np.array(vals[a:b], dtype=float)
                if ws is None:
                    ctx.call(what, h.fill_n, chunk)
                else:
                    ctx.call(what, h.fill_n, chunk, _warr(ws[a:b]) if b > a else np.array([], dtype=float))
                if b == a:
                    ctx.label("empty_chunk")
                else:
                    ref.median_known = False
            for v, w in zip(vals, wl):
                ref.enter(v, w)
            paths.add("fill_n")
        elif kind in ("partial_add", "partial_iadd", "partial_sum"):
            kw = {} if ws is None else {"weights": _warr(ws)}
            part = ctx.call(what + " h1(part)", physt.h1, np.array(vals, dtype=float), binning(), **kw)
            if kind == "partial_add":
                h = ctx.call(what, lambda: h + part)
            elif kind == "partial_iadd":
                def f(hh=h):
                    hh += part
                    return hh
                h = ctx.call(what, f)
            else:
                h = ctx.call(what, sum, [h, part])
            for v, w in zip(vals, wl):
                ref.enter(v, w)
            ref.median_known = False
            paths.add("partial")
        elif kind == "copy":
            h = ctx.call(what, h.copy)
        elif kind == "emptied_copy":
            # an emptied copy starts from nothing: what was entered before does not count any more
            h = ctx.call(what, lambda: h.copy(include_frequencies=False))
            ref = Ref()
            ctx.label("emptied_copy")
        elif kind == "scale":
            c = stage["c"]
            op = stage["op"]
            if op == "mul":
                h = ctx.call(what, lambda: h * c)
                ref.scale(F(c))
            elif op == "rmul":
                h = ctx.call(what, lambda: c * h)
                ref.scale(F(c))
            elif op == "div":
                h = ctx.call(what, lambda: h / c)
                ref.scale(1 / F(c))
            elif op == "imul":
                def f(hh=h):
                    hh *= c
                    return hh
                h = ctx.call(what, f)
                ref.scale(F(c))
            else:
                tot = F(h.total)
                if tot <= 0:
                    continue
                h = ctx.call(what, h.normalize)
                ref.scale(1 / tot)
            rescaled = True
        assert_stats(ctx, h, ref, what)
    if h is None:
        h = ctx.call("Histogram1D(binning)", Histogram1D, binning())
        assert_stats(ctx, h, ref, "empty histogram")
    if ref.n == 0:
        ctx.label("empty")
    # ---- invalidating operation
    inv = case.get("invalidate")
    if inv:
        if inv == "sub":
            other = h.copy() * 0 if False else Histogram1D(binning(), np.zeros(len(ps)))
            r = ctx.call("h - zeros", lambda: h - other)
        elif inv == "sub_free":
            other = ctx.call("h1(part)", physt.h1, np.array([float(edges[0])]), binning())
            with config.enable_free_arithmetics():
                r = ctx.call("h - h2 (free arithmetics)", lambda: h - other)
        elif inv == "array_add":
            with config.enable_free_arithmetics():
                r = ctx.call("h + array", lambda: h + np.ones(len(ps)))
        elif inv == "array_mul":
            with config.enable_free_arithmetics():
                r = ctx.call("h * array", lambda: h * (np.ones(len(ps)) * 2))
        elif inv == "array_div":
            with config.enable_free_arithmetics():
                r = ctx.call("h / array", lambda: h / (np.ones(len(ps)) * 2))
        elif inv == "bare":
            r = ctx.call("Histogram1D(bins, frequencies)", Histogram1D, binning(), np.asarray(h.frequencies).copy())
        else:
            if len(ps) < 2:
                return
            r = ctx.call("h[0:1]", lambda: h[0:1])
        s = r.statistics
        for nm in ("sum", "sum2", "min", "max", "weight"):
            require(math.isnan(float(getattr(s, nm))), "stale_statistics", f"after {inv}: statistics.{nm} = {getattr(s, nm)!r} (must read invalid)")
        require(math.isnan(s.mean()) and math.isnan(s.variance()) and math.isnan(s.std()), "stale_moments", f"after {inv}: mean {s.mean()!r} variance {s.variance()!r}")
        ctx.label("invalidate_" + inv)
        # ---- whatever is accumulated afterwards, the statistics stay invalid (no number may describe part of the data)
        then = case.get("then")
        if then and inv != "slice":
            mid = float(edges[0] + (edges[1] - edges[0]) / 2)
            valid = ctx.call("h1(valid part)", physt.h1, np.array([mid, mid]), binning())
            if then == "fill":
                ctx.call("fill after invalidation", r.fill, mid)
                r2 = r
            elif then == "fill_n":
                ctx.call("fill_n after invalidation", r.fill_n, np.array([mid, float(edges[-1])]))
                r2 = r
            elif then == "add_right":
                r2 = ctx.call("invalid + valid", lambda: r + valid)
            elif then == "add_left":
                r2 = ctx.call("valid + invalid", lambda: valid + r)
            elif then == "iadd":
                def g(v=valid):
                    v += r
                    return v
                r2 = ctx.call("valid += invalid", g)
            else:
                r2 = ctx.call("sum([valid, invalid])", sum, [valid, r])
            s2 = r2.statistics
            for nm in ("sum", "sum2", "min", "max", "weight"):
                require(math.isnan(float(getattr(s2, nm))), "invalid_statistics_revived", f"after {inv} then {then}: statistics.{nm} = {getattr(s2, nm)!r} (must stay invalid)")
            require(math.isnan(s2.mean()) and math.isnan(s2.variance()), "invalid_statistics_revived", f"after {inv} then {then}: mean {s2.mean()!r}")
            ctx.label("then_" + then)
    ctx.label(f"paths{len(paths)}")
    ctx.nt((len(paths) >= 2 and not ref.unit_weights) or rescaled or bool(inv))


@st.composite
def histories(draw, tier="quick"):
    ps = draw(gen.pairs(1, 8, gapped=False))
    first, last = ps[0][0], ps[-1][1]
    inside = [p[0] for p in ps] + [last] + [p[0] + (p[1] - p[0]) / 2 for p in ps]
    val = st.one_of(st.sampled_from(inside), st.floats(first, last, allow_nan=False))
    wk = draw(st.sampled_from(["none", "none", "int", "float"]))

    def weights(n):
        if wk == "none":
            return st.none()
        if wk == "int":
            return st.one_of(st.none(), st.lists(st.integers(0, 5), min_size=n, max_size=n))
        return st.one_of(st.none(), st.lists(st.one_of(st.just(0.0), st.floats(1e-6, 10.0, allow_nan=False)), min_size=n, max_size=n))  # (denormal-range weights underflow in sum**2: out of domain)

    @st.composite
    def stage(draw):
        kind = draw(st.sampled_from(["construct", "fill", "fill_n", "fill_n", "partial_add", "partial_iadd", "partial_sum", "copy", "scale", "emptied_copy"]))
        if kind in ("copy", "emptied_copy"):
            return {"kind": kind}
        if kind == "scale":
            return {"kind": kind, "op": draw(st.sampled_from(["mul", "rmul", "div", "imul", "normalize"])),
                    "c": draw(st.sampled_from([2, 0.5, 3, 2.5, 0.1, 7, 1e3, 1 / 3]))}
        n = draw(st.integers(0, 8 if kind == "fill" else 15))
        vals = draw(st.lists(val, min_size=n, max_size=n))
        st_ = {"kind": kind, "values": vals, "weights": draw(weights(n))}
        if kind == "fill":
            st_["vtype"] = draw(st.sampled_from([None, None, "np_int8", "np_int16", "np_float32"]))
            st_["wtype"] = draw(st.sampled_from([None, None, "np_float32", "np_float16"]))
        if kind == "fill_n":
            st_["cuts"] = draw(st.lists(st.integers(0, 100), max_size=3))
        return st_

    stages = draw(st.lists(stage(), min_size=1, max_size=7 if tier == "thorough" else 5))
    return {"pairs": ps, "stages": stages, "invalidate": draw(st.sampled_from([None, None, "sub", "sub_free", "array_add", "array_mul", "array_div", "bare", "slice"])),
            "then": draw(st.sampled_from([None, "fill", "fill_n", "add_right", "add_left", "iadd", "sum"]))}


# ---------------------------------------------------------------------------------
# adaptive histograms over different ranges: the sum carries the statistics of all values, once


def check_adaptive_add(case, ctx: Ctx):
    import physt

    w = case["w"]
    parts = [[float(x) for x in p] for p in case["parts"]]
    hs = [ctx.call("h1(part, adaptive)", physt.h1, np.array(p), "fixed_width", bin_width=w, adaptive=True) for p in parts]
    ref = Ref()
    for p in parts:
        for v in p:
            ref.enter(v, 1)
    how = case["how"]
    if how == "add":
        total = hs[0]
        for h_ in hs[1:]:
            total = ctx.call("a + b", lambda t=total, o=h_: t + o)
    elif how == "iadd":
        total = hs[0].copy()
        for h_ in hs[1:]:
            def f(t=total, o=h_):
                t += o
                return t
            total = ctx.call("a += b", f)
    else:
        total = ctx.call("sum(parts)", sum, hs)
    require(float(total.total) == ref.n, "adaptive_sum_total", f"{total.total} vs {ref.n}")
    assert_stats(ctx, total, ref, f"{how} of {len(parts)} adaptive histograms")
    ranges = [(min(p), max(p)) for p in parts if p]
    ctx.label("how_" + how)
    ctx.nt(len(ranges) >= 2 and any(a[1] + w < b[0] or b[1] + w < a[0] for a in ranges for b in ranges))


@st.composite
def adaptive_add_cases(draw, tier="quick"):
    w = draw(st.sampled_from([1.0, 0.5, 2.0, 0.25]))
    k = draw(st.integers(2, 4))
    parts = []
    for _ in range(k):
        base = draw(st.integers(-20, 20)) * w
        parts.append([base + x * w for x in draw(st.lists(st.sampled_from([0.0, 0.25, 0.5, 1.5, 2.75, 3.0]), min_size=1, max_size=6))])
    return {"w": w, "parts": parts, "how": draw(st.sampled_from(["add", "iadd", "sum"]))}


FINDINGS = []

SUBS = [
    Sub("adaptive_add", lambda tier: adaptive_add_cases(tier), check_adaptive_add, quick=300, thorough=2000),
    Sub("history", lambda tier: histories(tier), check_history, quick=1200, thorough=8000),
]

RULE += ' Also: accumulation after the invalidating operation (fill, fill_n, + in both operand orders, +=, sum): everything stays NaN; emptied-copy stages restart the reference.'
RULE += ' adaptive_add: 2-4 adaptive fixed-width histograms over different ranges combined by +, += or sum(); non-trivial = at least two parts whose ranges are more than a bin apart.'
