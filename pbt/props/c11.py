"""C11 — indexing and slicing follow numpy semantics on the bin grid."""
from __future__ import annotations

import itertools
import math
from fractions import Fraction

import numpy as np
from hypothesis import strategies as st

from pbt import gen, hgen, model
from pbt.core import Ctx, Finding, Sub, Violation, require
from pbt.model import F
from pbt.snap import snapshot, snap_equal, snap_diff, same

LEVEL = "exploration"
RULE = (
    "Cases: index-expression grammar (ints incl. negative and out of range; slices with every start/stop/None/negative "
    "combination and step in {None, 1, 2, -1}; boolean masks of right and wrong length; strictly increasing integer "
    "arrays/lists; out-of-range arrays; N-D tuples mixing ints and slices, shorter than ndim or too long; select(axis, "
    "index) by index and name) on 1-D..4-D histograms with missed values and metadata. Oracle: the same index applied "
    "by numpy to the plain arrays of bins and contents; conservation of total+underflow+overflow for contiguous 1-D "
    "slices. Non-trivial: the expression cuts a non-empty bin on each side, mixes int and slice over >= 3 axes, or is a "
    "refusal. distinct = SHA-1 of the case."
)
ASSUMPTIONS = [
    "empty selections, unsorted / duplicate index arrays, numpy scalar ints and Ellipsis are out of domain",
    "a 1-D slice with an explicit step may be refused; if it is answered it must be exact",
]


def mk_index(ix):
    kind = ix[0]
    if kind == "int":
        return ix[1]
    if kind == "slice":
        return slice(ix[1], ix[2], ix[3])
    if kind == "mask":
        return np.array(ix[1], dtype=bool)
    if kind == "mask_list":
        return [bool(x) for x in ix[1]]
    if kind == "array":
        return np.array(ix[1], dtype=int)
    if kind == "list":
        return [int(x) for x in ix[1]]
    if kind == "tuple":
        return tuple(mk_index(x) for x in ix[1])
    raise AssertionError(kind)


def check_1d(case, ctx: Ctx):
    spec = case["spec"]
    h = ctx.call("build", hgen.build, spec)
    before = snapshot(h)
    n = h.bin_count
    ix = case["index"]
    index = mk_index(ix)
    kind = ix[0]
    via_select = case.get("select", False)
    ctx.label("kind_" + kind)
    freq = np.array(spec["freq"], dtype=spec["dtype"])
    err = np.array(spec["err2"] if spec["err2"] is not None else spec["freq"], dtype=spec["dtype"])
    pairs = np.array(before["binnings"][0]["bins"], dtype=float)
    if case.get("touch"):
        ctx.maybe(lambda: h.numpy_bins)  # reading cached representations first must not matter
        ctx.maybe(h.binning.is_consecutive)
        ctx.maybe(lambda: h.total_width)

    def do():
        if kind == "int" and case.get("np_int"):
            # the index as a numpy integer (np.argmax(h.frequencies), an element of an index array)
            return h.select(0, np.int64(index)) if via_select else h[np.int64(index)]
        return h.select(0, index) if via_select else h[index]

    def unchanged():
        require(snap_equal(before, snapshot(h)), "source_modified", lambda: snap_diff(before, snapshot(h)))

    # --- refusals
    if kind == "int":
        if not -n <= index < n:
            ctx.label("refusal_out_of_range")
            ctx.nt()
            ctx.refused(f"h[{index}]", do)
            unchanged()
            return
        edges, value = ctx.call(f"h[{index}]", do)
        require([float(x) for x in edges] == pairs[index].tolist(), "int_edges", f"{edges} vs {pairs[index]}")
        require(F(value) == F(freq[index]), "int_value", f"{value} vs {freq[index]}")
        unchanged()
        ctx.nt(index < 0)
        return
    if kind == "slice":
        step = index.step
        if step is not None and step < 0:
            ctx.label("refusal_reversed")
            ctx.nt()
            ctx.refused(f"h[{index}]", do)
            unchanged()
            return
        sel = list(range(n))[index]
        if not sel:
            ctx.label("empty_selection_out_of_domain")
            return
        if index == slice(None) and via_select:
            return  # identity selection may return the histogram itself
        if step is not None:
            ok, r = ctx.maybe(do)
            if not ok:
                ctx.label("stepped_slice_refused")
                unchanged()
                return
        else:
            r = ctx.call(f"h[{index}]", do)
    elif kind in ("mask", "mask_list"):
        if len(ix[1]) == 0:
            ctx.label("empty_selection_out_of_domain")  # an empty list is not a mask
            return
        if len(ix[1]) != n:
            ctx.label("refusal_wrong_mask_size")
            ctx.nt()
            ctx.refused("h[mask of wrong size]", do)
            unchanged()
            return
        if not any(ix[1]):
            ctx.label("empty_selection_out_of_domain")
            return
        r = ctx.call("h[mask]", do)
    else:  # array / list of indices (strictly increasing)
        vals = list(ix[1])
        if any(not -n <= v < n for v in vals):
            ctx.label("refusal_out_of_range")
            ctx.nt()
            ctx.refused("h[out-of-range indices]", do)
            unchanged()
            return
        norm = [v % n for v in vals]
        if not vals or norm != sorted(set(norm)):
            ctx.label("unsorted_out_of_domain")
            return
        r = ctx.call("h[indices]", do)
    # --- a histogram result
    require(type(r) is type(h), "class", type(r).__name__)
    want_f, want_e, want_b = freq[index], err[index], pairs[index]
    got_b = np.asarray(r.bins, dtype=float)
    require(got_b.shape == want_b.shape and np.array_equal(got_b, want_b), "bins", f"{got_b.tolist()} vs {want_b.tolist()}")
    require(np.array_equal(np.asarray(r.frequencies), want_f), "frequencies", f"{np.asarray(r.frequencies).tolist()} vs {want_f.tolist()}")
    require(np.array_equal(np.asarray(r.errors2), want_e), "errors2", f"{np.asarray(r.errors2).tolist()} vs {want_e.tolist()}")
    require(r.dtype == h.dtype == r.frequencies.dtype, "dtype", f"{r.dtype} vs {h.dtype}")
    require(r.name == h.name and tuple(r.axis_names) == tuple(h.axis_names), "metadata", f"{r.name},{r.axis_names}")
    contiguous = kind == "slice" and (index.step is None or index.step == 1)
    # derived geometry of the selection agrees with its own bins (no stale caches from the parent)
    wsum = float(np.sum(want_b[:, 1] - want_b[:, 0]))
    tw = float(ctx.call("result.total_width", lambda: r.total_width))
    require(abs(tw - wsum) <= 1e-12 * max(abs(wsum), 1e-300), "total_width_of_selection", f"{tw!r} vs sum of widths {wsum!r}")
    require(bool(r.binning.is_consecutive()) == model.physt_consecutive(model.pairs_of(want_b)), "is_consecutive_of_selection",
            f"{r.binning.is_consecutive()} for {want_b.tolist()}")
    if not model.gaps(model.pairs_of(want_b)):
        # the edge representation of the selection agrees with its bins
        ne = [float(x) for x in ctx.call("result.numpy_bins", lambda: r.numpy_bins)]
        require(ne == [float(want_b[0][0])] + [float(p[1]) for p in want_b], "numpy_bins_of_selection", f"{ne} vs {want_b.tolist()}")
        require(float(r.binning.first_edge) == float(want_b[0][0]) and float(r.binning.last_edge) == float(want_b[-1][1]), "first_last_edge_of_selection", "")
    if contiguous:
        sel = list(range(n))[index]
        cut_left = sum((F(x) for x in freq[: sel[0]]), Fraction(0))
        cut_right = sum((F(x) for x in freq[sel[-1] + 1:]), Fraction(0))
        if h.keep_missed:
            u0, o0 = before["missed"][0], before["missed"][1]
            for got, base, cut, nm in ((r.underflow, u0, cut_left, "underflow"), (r.overflow, o0, cut_right, "overflow")):
                if math.isnan(base):
                    require(math.isnan(float(got)), nm, f"{got} want NaN")
                elif case.get("mixed_magnitude"):
                    # general float contents: the cut-off sum is rounded, relative to what was cut off (not to the rest)
                    mass = abs(float(F(base))) + sum(abs(float(F(x))) for x in (freq[: sel[0]] if nm == "underflow" else freq[sel[-1] + 1:]))
                    require(abs(F(got) - (F(base) + cut)) <= Fraction((n + 4) * 2.0 ** -52 * mass), nm, f"{got} want {float(F(base) + cut)} (cut-off weight {mass})")
                else:
                    require(F(got) == F(base) + cut, nm, f"{got} want {float(F(base) + cut)}")
            if not (math.isnan(u0) or math.isnan(o0)) and not case.get("mixed_magnitude"):
                a = F(r.total) + F(r.underflow) + F(r.overflow)
                b = F(h.total) + F(u0) + F(o0)
                require(a == b, "not_conserved", f"{float(a)} vs {float(b)}")
        ctx.nt(cut_left != 0 and cut_right != 0)
        if cut_left != 0 or cut_right != 0:
            ctx.label("cuts_content")
    else:
        require(math.isnan(float(r.underflow)) and math.isnan(float(r.overflow)), "noncontiguous_missed_not_unknown", f"{r.underflow},{r.overflow}")
        ctx.nt(len(want_f) >= 2)
    unchanged()
    # the result is independent storage: working on it in place never reaches the source
    if np.asarray(r.frequencies).size and not r.is_adaptive():
        mid_ = float((np.asarray(r.bins)[0][0] + np.asarray(r.bins)[0][1]) / 2)
        ctx.maybe(r.fill, mid_)
        ctx.maybe(r.fill_n, np.array([mid_, mid_]))
        def scale_(rr=r):
            rr *= 2
        ctx.maybe(scale_)
        require(snap_equal(before, snapshot(h)), "source_modified_through_selection", lambda: snap_diff(before, snapshot(h)))


def slice_parts(n):
    b = st.one_of(st.none(), st.integers(-n - 2, n + 2))
    # bounds beyond the ends (numpy clamps them) paired with an ordinary bound on the other side
    far_start = st.tuples(st.just("slice"), st.sampled_from([-n - 1, -n - 3, -2 * n - 1]), st.one_of(st.none(), st.integers(1, n + 2)), st.none()).map(list)
    far_stop = st.tuples(st.just("slice"), st.one_of(st.none(), st.integers(-n, n - 1)), st.sampled_from([n + 1, n + 3, 2 * n + 1]), st.none()).map(list)
    neg_start = st.tuples(st.just("slice"), st.integers(-n, -1), st.one_of(st.none(), st.integers(-n, n)), st.none()).map(list)
    return st.one_of(st.tuples(st.just("slice"), b, b, st.sampled_from([None, None, None, 1, 2, -1])).map(list),
                     st.tuples(st.just("slice"), b, b, st.sampled_from([None, None, None, 1, 2, -1])).map(list), far_start, far_stop, neg_start)


@st.composite
def cases_1d(draw, tier="quick"):
    spec = draw(hgen.hist_spec(dims=(1,), dtypes=["int32", "int64", "float32", "float64"], max_bins=10, nan_missed=True, allow_zero=draw(st.booleans())))
    n = len(spec["axes"][0]["pairs"])
    mixed = False
    if spec["dtype"] == "float64" and draw(st.integers(0, 3)) == 0:
        # contents of very different magnitude (a heavy bin left of light ones)
        spec["freq"] = [draw(st.sampled_from([1e16, 1e8, 1.0, 3.0, 1e-9, 0.5])) for _ in range(n)]
        spec["err2"] = None
        spec["missed"] = [draw(st.sampled_from([0.0, 2.0, 1e-9])), draw(st.sampled_from([0.0, 1.0, 1e-9])), 0.0]
        spec["keep_missed"] = True
        mixed = True
    kind = draw(st.sampled_from(["int", "slice", "slice", "slice", "mask", "mask_list", "array", "list"]))
    if mixed and n >= 2 and draw(st.booleans()):
        # the heavy bin first, the slice cuts light bins off on the right
        spec["freq"][0] = draw(st.sampled_from([1e16, 1e8]))
        k_ = draw(st.integers(1, n - 1))
        return {"spec": spec, "index": ["slice", draw(st.sampled_from([None, 0])), k_, None], "select": draw(st.booleans()), "touch": draw(st.booleans()), "mixed_magnitude": True}
    if kind == "int":
        ix = ["int", draw(st.integers(-n - 2, n + 1))]
    elif kind == "slice":
        ix = draw(slice_parts(n))
    elif kind in ("mask", "mask_list"):
        ln = n if draw(st.integers(0, 5)) else n + draw(st.sampled_from([-1, 1, 2]))
        ix = [kind, draw(st.lists(st.booleans(), min_size=max(ln, 0), max_size=max(ln, 0)))]
    else:
        vals = sorted(set(draw(st.lists(st.integers(0, n - 1), min_size=1, max_size=n))))
        if draw(st.integers(0, 6)) == 0:
            vals = vals + [n + draw(st.integers(0, 2))]
        elif draw(st.integers(0, 4)) == 0:
            vals = sorted(v - n for v in vals)  # negative spellings, still increasing
        ix = [kind, vals]
    return {"spec": spec, "index": ix, "select": draw(st.booleans()) and kind in ("int", "slice"), "touch": draw(st.booleans()), "mixed_magnitude": mixed, "np_int": draw(st.booleans())}


# ---------------------------------------------------------------------------------
# N-D


def check_nd(case, ctx: Ctx):
    spec = case["spec"]
    h = ctx.call("build", hgen.build, spec)
    before = snapshot(h)
    d = h.ndim
    shape = hgen.shape_of(spec)
    freq = np.array(spec["freq"], dtype=spec["dtype"])
    err = np.array(spec["err2"] if spec["err2"] is not None else spec["freq"], dtype=spec["dtype"])
    names = list(h.axis_names)

    def unchanged():
        require(snap_equal(before, snapshot(h)), "source_modified", lambda: snap_diff(before, snapshot(h)))

    if case["mode"] == "select":
        ax = case["axis"] % d
        sub = case["index"]
        index = mk_index(sub)
        items = [slice(None)] * d
        items[ax] = index
        arg = ax if case["axis_by"] == "index" else names[ax]
        call = lambda: h.select(arg, index)  # noqa: E731
        what = f"select({arg!r}, {index})"
        parts = [["slice", None, None, None]] * ax + [sub]
    else:
        parts = case["index"]
        items = [mk_index(p) for p in parts]
        key = tuple(items) if case.get("as_tuple", True) or len(items) != 1 else items[0]
        if case.get("np_int"):
            # integer indices as numpy integers (results of np.argmax, elements of index arrays)
            key = tuple(np.int64(x) if isinstance(x, int) else x for x in key) if isinstance(key, tuple) else (np.int64(key) if isinstance(key, int) else key)
            ctx.label("numpy_integer_indices")
        call = lambda: h[key]  # noqa: E731
        what = f"h[{key}]"
    ctx.label(f"d{d}", "mode_" + case["mode"])
    # classify
    if len(parts) > d:
        ctx.label("refusal_too_many")
        ctx.nt()
        ctx.refused(what, call)
        unchanged()
        return
    bad = False
    empty = False
    for a, p in enumerate(parts):
        if p[0] == "int" and not -shape[a] <= p[1] < shape[a]:
            bad = True
        if p[0] == "slice":
            if p[3] is not None and p[3] < 0:
                bad = True
            elif not list(range(shape[a]))[slice(p[1], p[2], p[3])]:
                empty = True
    if bad:
        ctx.label("refusal_bad_index")
        ctx.nt()
        ctx.refused(what, call)
        unchanged()
        return
    if empty:
        ctx.label("empty_selection_out_of_domain")
        return
    full = list(items) + [slice(None)] * (d - len(items))
    all_int = len(parts) == d and all(p[0] == "int" for p in parts)
    if any(p[0] == "slice" and p[3] is not None for p in parts):
        # a slice with an explicit step may be refused; if it is answered it must be exact
        ok, r = ctx.maybe(call)
        if not ok:
            ctx.label("stepped_slice_refused")
            unchanged()
            return
    else:
        r = ctx.call(what, call)
    if all_int and case["mode"] == "index":
        edges, value = r
        want_edges = [tuple(before["binnings"][a]["bins"][parts[a][1]]) for a in range(d)]
        require([tuple(float(x) for x in e) for e in edges] == want_edges, "int_edges", f"{edges} vs {want_edges}")
        require(F(value) == F(freq[tuple(full)]), "int_value", f"{value} vs {freq[tuple(full)]}")
        unchanged()
        ctx.nt(d >= 3)
        return
    if all(p[0] == "slice" and p[1:] == [None, None, None] for p in parts):
        # identity selection: may return the histogram itself (C12 speaks of "a real selection" only)
        ctx.label("identity_selection")
        unchanged()
        return
    kept = [a for a in range(d) if not (a < len(parts) and parts[a][0] == "int")]
    want_f, want_e = freq[tuple(full)], err[tuple(full)]
    require(hasattr(r, "ndim") and hasattr(r, "frequencies"), "not_a_histogram", f"{what} returned {type(r).__name__}: {repr(r)[:100]}")
    require(r.ndim == len(kept), "ndim", f"{r.ndim} vs {len(kept)}")
    want_cls = {1: "Histogram1D", 2: "Histogram2D"}.get(len(kept), "HistogramND")
    if len(kept) < d:
        require(type(r).__name__ == want_cls, "class", f"{type(r).__name__} vs {want_cls}")
    else:
        require(type(r) is type(h), "class", type(r).__name__)
    require(np.array_equal(np.asarray(r.frequencies), want_f), "frequencies", f"{np.asarray(r.frequencies).tolist()} vs {want_f.tolist()}")
    require(np.array_equal(np.asarray(r.errors2), want_e), "errors2", f"{np.asarray(r.errors2).tolist()} vs {want_e.tolist()}")
    rbins = [r.bins] if r.ndim == 1 else r.bins
    for j, a in enumerate(kept):
        wb = np.array(before["binnings"][a]["bins"], dtype=float)[full[a]]
        gb = np.asarray(rbins[j], dtype=float)
        require(gb.shape == wb.shape and np.array_equal(gb, wb), "bins", f"axis {a}: {gb.tolist()} vs {wb.tolist()}")
    require(list(r.axis_names) == [names[a] for a in kept], "axis_names", f"{r.axis_names} vs {[names[a] for a in kept]}")
    require(r.dtype == h.dtype or len(kept) < d, "dtype", f"{r.dtype} vs {h.dtype}")
    require(r.name == h.name, "name", f"{r.name!r}")
    unchanged()
    n_int = sum(1 for p in parts if p[0] == "int")
    n_sl = sum(1 for p in parts if p[0] == "slice" and p[1:] != [None, None, None])
    ctx.nt(d >= 3 and n_int >= 1 and n_sl >= 1)
    if n_int and n_sl:
        ctx.label("mixed_int_slice")


@st.composite
def cases_nd(draw, tier="quick"):
    d = draw(st.sampled_from([2, 3, 3, 4]))
    spec = draw(hgen.hist_spec(dims=(d,), dtypes=["int64", "float64", "int32", "float32"], max_bins=5, adaptive=False))
    shape = hgen.shape_of(spec)
    if draw(st.integers(0, 2)) == 0:
        # one axis on a fixed-width grid that does not start on a multiple of the width ("integer" bins, align=False)
        a_ = draw(st.integers(0, d - 1))
        w_ = draw(st.sampled_from([1.0, 0.5, 2.0, 0.25]))
        k0_ = draw(st.integers(-4, 4))
        sh_ = w_ * draw(st.sampled_from([0.5, 0.25]))
        spec["axes"][a_] = {"form": "fixed", "w": w_, "n": shape[a_], "k0": k0_, "shift": sh_, "incl": draw(st.booleans()), "adaptive": False,
                            "pairs": hgen.fixed_pairs(w_, shape[a_], k0_, sh_)}

    def part(a):
        n = shape[a]
        return st.one_of(st.tuples(st.just("int"), st.integers(-n - 1, n)).map(list), slice_parts(n), slice_parts(n),
                         st.just(["slice", None, None, None]))

    if draw(st.integers(0, 3)) == 0:
        ax = draw(st.integers(0, d - 1))
        return {"spec": spec, "mode": "select", "axis": ax, "axis_by": draw(st.sampled_from(["index", "name"])), "index": draw(part(ax))}
    if draw(st.integers(0, 4)) == 0:
        # a full tuple of integers (negative ones included): returns the cell's edges and content
        parts = [["int", draw(st.integers(-shape[a], shape[a] - 1))] for a in range(d)]
        return {"spec": spec, "mode": "index", "index": parts, "as_tuple": True, "np_int": draw(st.booleans())}
    k = d + 1 if draw(st.integers(0, 5)) == 0 else draw(st.integers(1, d))  # d + 1 indices: one too many
    parts = [draw(part(min(a, d - 1))) for a in range(k)]
    if k == d + 1 and draw(st.booleans()):
        parts[-1] = ["slice", None, None, None]  # (the superfluous index is a harmless-looking full slice)
    return {"spec": spec, "mode": "index", "index": parts, "as_tuple": draw(st.booleans()), "np_int": draw(st.booleans())}


FINDINGS = []

SUBS = [
    Sub("index_1d", lambda tier: cases_1d(tier), check_1d, quick=1200, thorough=8000),
    Sub("index_nd", lambda tier: cases_nd(tier), check_nd, quick=900, thorough=6000),
]

RULE += ' Also: slice bounds beyond both ends; N-D selections on a fixed-width axis with a grid offset.'
