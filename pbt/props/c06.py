"""C06 — scaling, division and normalisation are exactly linear."""
from __future__ import annotations

import itertools
import math
from fractions import Fraction

import numpy as np
from hypothesis import strategies as st

from pbt import gen, hgen, model
from pbt.core import Ctx, Finding, Sub, Violation, require
from pbt.model import F
from pbt.snap import snapshot, snap_equal, snap_diff

LEVEL = "exploration"
RULE = (
    "Cases: directly constructed histograms (1-3 dims, int16..float64, missed values, custom errors2) or 1-D "
    "histograms built from data (valid statistics) x chains of *, /, c*h, *=, /= with positive scalars (python / numpy "
    "ints and floats; powers of two = exact class, others = tolerance class) x normalize(percent, inplace), "
    "partial_normalize(axis, inplace), collection normalize_bins / normalize_all; refusals h*h, h/h, c/h, negative "
    "factor on non-zero contents, list/array operands. Oracle: Fractions scaled by the exact factor. Non-trivial: "
    "missed != 0, factor not in {1}, and (valid statistics or an N-D histogram or custom errors2); or a refusal. "
    "distinct = SHA-1 of the case."
)
ASSUMPTIONS = [
    "power-of-two factors are compared exactly; others with (k+2) ulp of the result dtype per k operations",
    "c = 0, NaN, inf and normalising an all-zero histogram are out of domain (their atomicity is C18)",
]


def scalar_of(s):
    kind, v = s
    return {"int": int, "float": float, "np_int64": np.int64, "np_int32": np.int32, "np_float64": np.float64,
            "np_float32": np.float32, "np_float16": np.float16, "np_longdouble": np.longdouble, "np_int16": np.int16, "np_int8": np.int8, "np_uint8": np.uint8, "np_uint16": np.uint16}[kind](v)


def eps_of(dtype) -> float:
    return {"float16": 2.0 ** -10, "float32": 2.0 ** -23}.get(np.dtype(dtype).name, 2.0 ** -52)


def is_pow2(x: float) -> bool:
    m, _ = math.frexp(float(x))
    return m == 0.5


def flat(a):
    return np.asarray(a).ravel().tolist()


def compare_scaled(ctx, h, base, factor: Fraction, k: int, exact: bool, what):
    """h must equal base (a snapshot) scaled by factor (contents, missed) / factor^2 (errors2)."""
    require([b["bins"] for b in snapshot(h)["binnings"]] == [b["bins"] for b in base["binnings"]], "bins_changed", what)
    eps = eps_of(h.dtype)
    require(h.dtype == h.frequencies.dtype == h.errors2.dtype, "dtype_inconsistent", f"{what}: {h.dtype} {h.frequencies.dtype} {h.errors2.dtype}")

    def cmp(got, want: Fraction, kind, i):
        if math.isnan(float(got)):
            raise Violation(kind, f"{what}: entry {i} is NaN, want {float(want)}")
        if exact:
            ok = F(got) == want
        else:
            ok = abs(F(got) - want) <= Fraction((k + 2) * eps) * abs(want) + Fraction(1e-300)
        require(ok, kind, lambda: f"{what}: entry {i}: got {got!r} want {float(want)!r} (factor {float(factor)})")

    for i, (g, b) in enumerate(zip(flat(h.frequencies), flat(base["frequencies"]))):
        cmp(g, F(b) * factor, "frequency", i)
    for i, (g, b) in enumerate(zip(flat(h.errors2), flat(base["errors2"]))):
        cmp(g, F(b) * factor * factor, "errors2", i)
    got_missed = snapshot(h)["missed"]
    for i, (g, b) in enumerate(zip(got_missed, base["missed"])):
        if math.isnan(b):
            require(math.isnan(g), "missed", f"{what}: missed[{i}] {g} want NaN")
        else:
            cmp(g, F(b) * factor, "missed", i)


def make_hist(ctx, case):
    import physt

    if case["source"] == "spec":
        return ctx.call("build", hgen.build, case["spec"]), False
    ps = case["pairs"]
    kw = {}
    if case["weights"] is not None:
        kw["weights"] = np.array(case["weights"], dtype=np.int64 if all(isinstance(x, int) for x in case["weights"]) else np.float64)
    h = ctx.call("h1", physt.h1, np.array(case["data"], dtype=float), np.array([p[0] for p in ps] + [ps[-1][1]]), **kw)
    return h, True


def check_scale(case, ctx: Ctx):
    h0, has_stats = make_hist(ctx, case)
    base = snapshot(h0)
    cur = h0
    factor = Fraction(1)
    exact = True
    k = 0
    inplace_seen = False
    work = h0.copy()
    for op, s in case["ops"]:
        c = scalar_of(s)
        fc = F(float(c)) if not isinstance(c, (int, np.integer)) else Fraction(int(c))
        if not is_pow2(float(c)):
            exact = False
        k += 1
        before = snapshot(work)
        if op == "mul":
            new = ctx.call(f"h * {c!r}", lambda: work * c)
            factor *= fc
        elif op == "rmul":
            new = ctx.call(f"{c!r} * h", lambda: c * work)
            factor *= fc
        elif op == "div":
            new = ctx.call(f"h / {c!r}", lambda: work / c)
            factor /= fc
        elif op == "imul":
            def f(w=work):
                w *= c
                return w
            new = ctx.call(f"h *= {c!r}", f)
            require(new is work, "inplace_returns_other", "*=")
            factor *= fc
            inplace_seen = True
        else:
            def f(w=work):
                w /= c
                return w
            new = ctx.call(f"h /= {c!r}", f)
            require(new is work, "inplace_returns_other", "/=")
            factor /= fc
            inplace_seen = True
        if op in ("mul", "rmul", "div"):
            require(snap_equal(before, snapshot(work)), "operand_modified", lambda: f"{op}: {snap_diff(before, snapshot(work))}")
            require(new is not work, "returns_operand", op)
        # float factor / division never truncates: result kind is float
        if op in ("div", "idiv") or isinstance(c, (float, np.floating)):
            require(new.dtype.kind == "f", "not_promoted_to_float", f"{op} {c!r}: dtype {new.dtype}")
        work = new
        ex = exact and not (op in ("div", "idiv") and False)
        compare_scaled(ctx, work, base, factor, k, ex, f"after {k} ops ({op} {c!r})")
    require(snap_equal(base, snapshot(h0)), "original_modified", lambda: snap_diff(base, snapshot(h0)))
    # commutation and round trip on the original
    op0, s0 = case["ops"][0]
    c = scalar_of(s0)
    a, b = ctx.call("h*c", lambda: h0 * c), ctx.call("c*h", lambda: c * h0)
    require(snap_equal(snapshot(a), snapshot(b)), "not_commutative", lambda: snap_diff(snapshot(a), snapshot(b)))
    rt = ctx.call("(h*c)/c", lambda: (h0 * c) / c)
    compare_scaled(ctx, rt, base, Fraction(1), 2, is_pow2(float(c)), f"(h*{c!r})/{c!r}")
    # statistics
    if has_stats and len(case["data"]):
        s0_, s1 = h0.statistics, work.statistics
        g = 16 * (k + 2) * 2.0 ** -52
        n = len(case["data"])
        wsum = float(s0_.weight)
        # (scaled sums that fall into the subnormal range have lost digits: no moments to compare there)
        tiny = any(0 < abs(float(x)) < 1e-290 for x in (s1.sum, s1.sum2, s1.weight, s0_.sum2)) or (float(s0_.sum) != 0 and float(s1.sum) == 0) \
            or (float(s0_.sum2) != 0 and float(s1.sum2) == 0)
        if tiny:
            ctx.label("subnormal_statistics_skipped")
        if wsum > 0 and not tiny:
            require(math.isclose(s1.weight, wsum * float(factor), rel_tol=g), "stat_weight", f"{s1.weight} vs {wsum * float(factor)}")
            require(float(s1.min) == float(s0_.min) and float(s1.max) == float(s0_.max), "stat_minmax", f"{s1.min},{s1.max}")
            scale = max(abs(float(s0_.min)), abs(float(s0_.max)), 1e-300)
            require(abs(s1.mean() - s0_.mean()) <= g * scale, "stat_mean", f"{s1.mean()!r} vs {s0_.mean()!r}")
            vtol = (2 * n + 64) * (k + 2) * 2.0 ** -52 * max(float(s0_.sum2) / wsum, 1e-300)
            require(abs(s1.variance() - s0_.variance()) <= vtol, "stat_variance", f"{s1.variance()!r} vs {s0_.variance()!r} (tol {vtol})")
        ctx.label("valid_stats")
    missed_nz = any((not math.isnan(x)) and x != 0 for x in base["missed"])
    nontriv_factor = factor != 1
    ctx.label("exact" if exact else "general", f"d{h0.ndim}", f"dtype_{base['dtype']}", "inplace" if inplace_seen else "copying")
    ctx.nt(missed_nz and nontriv_factor and (has_stats or h0.ndim > 1 or case.get("spec", {}).get("err2") is not None))


POW2 = [2, 4, 8, 0.5, 0.25, 16, 1]
GENERAL_INT = [3, 5, 7, 10, 6, 1000, 5000]  # large factors: products leave the range of the narrow integer types
GENERAL_FLOAT = [1.5, 0.1, 3.3, 2.5, 1e-3, 1e3, 0.7, 1 / 3]


@st.composite
def scalars(draw):
    cls = draw(st.sampled_from(["pow2", "pow2", "int", "float", "narrow", "narrow_float"]))
    if cls == "narrow_float":
        # single / half precision numpy scalars whose square (or inverse) is not representable in their own type
        return list(draw(st.sampled_from([("np_float16", 300.0), ("np_float16", 0.001953125), ("np_float32", 3.0), ("np_float32", 1e20), ("np_float32", 2.0 ** -70),
                                          ("np_float16", 3.0), ("np_float32", 0.1)])))
    if cls == "narrow":
        # numpy integer scalars whose square (or product with the contents) leaves their own type
        kind, v = draw(st.sampled_from([("np_int8", 100), ("np_int8", 12), ("np_int16", 200), ("np_int16", 1000), ("np_uint8", 200),
                                        ("np_uint8", 16), ("np_int32", 70000), ("np_uint16", 300), ("np_int8", 4), ("np_uint8", 2)]))
    elif cls == "pow2":
        v = draw(st.sampled_from(POW2))
        kind = draw(st.sampled_from(["int", "np_int64", "np_int32"] if float(v).is_integer() else ["float", "np_float64", "np_float32"])) if float(v).is_integer() and draw(st.booleans()) else draw(st.sampled_from(["float", "np_float64", "np_float32", "np_longdouble"]))
    elif cls == "int":
        v = draw(st.sampled_from(GENERAL_INT))
        kind = draw(st.sampled_from(["int", "np_int64", "np_int32", "float"]))
    else:
        v = draw(st.sampled_from(GENERAL_FLOAT))
        kind = draw(st.sampled_from(["float", "np_float64"]))
    return [kind, v]


@st.composite
def scale_cases(draw, tier="quick"):
    ops = draw(st.lists(st.tuples(st.sampled_from(["mul", "rmul", "div", "imul", "idiv"]), scalars()).map(list), min_size=1, max_size=4))
    prod_sq = 1.0
    for op in ops:  # the squared factors of a chain stay below 2**45: squared errors must stay inside int64 (overflow is out of domain)
        if op[0] in ("mul", "rmul", "imul") and op[1][1] > 1:
            if prod_sq * op[1][1] ** 2 > 2.0 ** 45:
                op[1] = ["int", 3]
            prod_sq *= op[1][1] ** 2
    if draw(st.sampled_from([True, True, False])):
        spec = draw(hgen.hist_spec(dims=(1, 1, 2, 3), dtypes=["int16", "int32", "int64", "float32", "float64"], adaptive=False, nan_missed=False))
        # keep magnitudes inside the exact range of the narrowest type under small chains
        return {"source": "spec", "spec": spec, "ops": ops}
    ps = draw(gen.pairs(1, 8, gapped=False))
    data = draw(gen.values_for(ps, 1, 25))
    wk, ws = draw(gen.weights_for(len(data), kinds=("none", "int", "dyadic")))
    return {"source": "data", "pairs": ps, "data": data, "weights": ws, "ops": ops}


# ---------------------------------------------------------------------------------
# normalisation


def check_normalize(case, ctx: Ctx):
    kind = case["kind"]
    ctx.label("kind_" + kind)
    if kind in ("normalize", "partial"):
        h = ctx.call("build", hgen.build, case["spec"])
        base = snapshot(h)
        freq = np.asarray(h.frequencies, dtype=float)
        total = float(np.sum([F(x) for x in flat(h.frequencies)]))
        if total == 0:
            ctx.label("all_zero_out_of_domain")
            return
        inplace = case["inplace"]
        n = freq.size
        if kind == "normalize":
            pct = case["percent"]
            r = ctx.call("normalize", h.normalize, inplace=inplace, percent=pct)
            target = 100.0 if pct else 1.0
            require((r is h) == inplace, "inplace_identity", f"inplace={inplace}")
            require(abs(r.total - target) <= 8 * (n + 2) * 2.0 ** -52 * target, "total_not_one", f"{r.total!r} vs {target}")
            fac = Fraction(target) / sum((F(x) for x in flat(base["frequencies"])), Fraction(0))
            compare_scaled(ctx, r, base, fac, n + 4, False, f"normalize(percent={pct}, inplace={inplace})")
            require(r.dtype.kind == "f", "not_promoted_to_float", str(r.dtype))
        else:
            if h.ndim != 2:
                return
            axis = case["axis"]
            ax_arg = axis if case["axis_by"] == "index" else h.axis_names[axis]
            r = ctx.call("partial_normalize", h.partial_normalize, ax_arg, inplace=inplace)
            require((r is h) == inplace, "inplace_identity", f"inplace={inplace}")
            f0 = np.array(base["frequencies"], dtype=float)
            e0 = np.array(base["errors2"], dtype=float)
            sums = f0.sum(axis=axis, keepdims=True)
            got = np.asarray(r.frequencies, dtype=float)
            tol = 8 * (n + 2) * 2.0 ** -52
            for idx in itertools.product(*[range(s) for s in f0.shape]):
                sidx = list(idx)
                sidx[axis] = 0
                s = sums[tuple(sidx)]
                want = f0[idx] / s if s != 0 else 0.0
                want2 = e0[idx] / (s * s) if s != 0 else e0[idx]
                require(abs(got[idx] - want) <= tol * max(abs(want), 1e-300) + 1e-300, "partial_value", f"cell {idx}: {got[idx]!r} vs {want!r} axis {axis}")
                require(abs(float(r.errors2[idx]) - want2) <= 4 * tol * max(abs(want2), 1e-300) + 1e-300, "partial_errors2", f"cell {idx}: {r.errors2[idx]!r} vs {want2!r}")
            line = got.sum(axis=axis)
            for j, s in enumerate(f0.sum(axis=axis)):
                if s != 0:
                    require(abs(line[j] - 1.0) <= tol, "line_sum_not_one", f"axis {axis} line {j}: {line[j]!r}")
                else:
                    require(line[j] == 0, "zero_line_changed", f"axis {axis} line {j}: {line[j]!r}")
            require([b["bins"] for b in snapshot(r)["binnings"]] == [b["bins"] for b in base["binnings"]], "bins_changed", "")
            require(tuple(r.axis_names) == tuple(base["axis_names"]), "axis_names_changed", "")
        if not inplace:
            require(snap_equal(base, snapshot(h)), "original_modified", lambda: snap_diff(base, snapshot(h)))
        ctx.nt(any((not math.isnan(x)) and x != 0 for x in base["missed"]) or kind == "partial")
    else:
        from physt.histogram1d import Histogram1D
        from physt.histogram_collection import HistogramCollection

        ps = case["pairs"]
        edges = np.array([p[0] for p in ps] + [ps[-1][1]])
        members = [Histogram1D(edges.copy() if False else hgen.build_axis({"form": "numpy", "pairs": ps, "incl": True}), np.array(f, dtype=case["dtype"]), name=f"m{i}") for i, f in enumerate(case["members"])]
        # all members must share the binning object's value
        col = ctx.call("HistogramCollection", HistogramCollection, *members)
        before = [snapshot(m) for m in members]
        inplace = case["inplace"]
        if kind == "normalize_bins":
            sums = [sum(F(f[i]) for f in case["members"]) for i in range(len(ps))]
            if any(s == 0 for s in sums):
                ctx.label("zero_bin_out_of_domain")
                return
            r = ctx.call("normalize_bins", col.normalize_bins, inplace=inplace)
            for i in range(len(ps)):
                tot = sum(float(m.frequencies[i]) for m in r.histograms)
                require(abs(tot - 1.0) <= 16 * 2.0 ** -52 * len(members), "shares_not_one", f"bin {i}: {tot!r}")
                for j, m in enumerate(r.histograms):
                    want = F(case["members"][j][i]) / sums[i]
                    require(abs(F(m.frequencies[i]) - want) <= Fraction(8 * 2.0 ** -52) * want + Fraction(1e-300), "share", f"member {j} bin {i}: {m.frequencies[i]!r} vs {float(want)}")
        else:
            if any(sum(f) == 0 for f in case["members"]):
                ctx.label("zero_member_out_of_domain")
                return
            r = ctx.call("normalize_all", col.normalize_all, inplace=inplace)
            for j, m in enumerate(r.histograms):
                require(abs(m.total - 1.0) <= 16 * 2.0 ** -52 * len(ps), "member_total_not_one", f"member {j}: {m.total!r}")
                tot = sum(F(x) for x in case["members"][j])
                for i in range(len(ps)):
                    want = F(case["members"][j][i]) / tot
                    require(abs(F(m.frequencies[i]) - want) <= Fraction(8 * 2.0 ** -52) * want + Fraction(1e-300), "share", f"member {j} bin {i}")
        require((r is col) == inplace, "inplace_identity", "")
        if not inplace:
            for j, m in enumerate(members):
                require(snap_equal(before[j], snapshot(m)), "original_modified", lambda: f"member {j}: {snap_diff(before[j], snapshot(m))}")
        ctx.nt(len(members) >= 2)


@st.composite
def normalize_cases(draw, tier="quick"):
    kind = draw(st.sampled_from(["normalize", "normalize", "partial", "partial", "normalize_bins", "normalize_all"]))
    def rescale(spec):
        # weighted histograms of very small / very large weights: sums far below 1e-8 are not "empty"
        mag = draw(st.sampled_from([None, None, 2.0 ** -40, 2.0 ** -70, 2.0 ** 40]))
        if mag is None:
            return spec

        def mul(x, f):
            return [mul(y, f) for y in x] if isinstance(x, list) else float(x) * f

        spec["dtype"] = "float64"
        spec["freq"] = mul(spec["freq"], mag)
        if spec.get("err2") is not None:
            spec["err2"] = mul(spec["err2"], mag * mag)
        return spec

    if kind == "normalize":
        spec = rescale(draw(hgen.hist_spec(dims=(1, 2, 3), dtypes=["int32", "int64", "float32", "float64"], adaptive=False)))
        return {"kind": kind, "spec": spec, "inplace": draw(st.booleans()), "percent": draw(st.booleans())}
    if kind == "partial":
        spec = rescale(draw(hgen.hist_spec(dims=(2,), dtypes=["int64", "float64", "int32"], adaptive=False, rich_meta=False)))
        return {"kind": kind, "spec": spec, "inplace": draw(st.booleans()), "axis": draw(st.integers(0, 1)),
                "axis_by": draw(st.sampled_from(["index", "name"]))}
    ps = draw(gen.pairs(1, 6, gapped=False))
    k = draw(st.integers(1, 4))
    dtype = draw(st.sampled_from(["int64", "float64"]))
    members = [draw(st.lists(st.integers(0, 20) if dtype == "int64" else gen.dyadics(64, 2), min_size=len(ps), max_size=len(ps))) for _ in range(k)]
    return {"kind": kind, "pairs": ps, "members": members, "dtype": dtype, "inplace": draw(st.booleans())}


# ---------------------------------------------------------------------------------
# refusals


def check_refusals(case, ctx: Ctx):
    from physt.config import config

    h = ctx.call("build", hgen.build, case["spec"])
    before = snapshot(h)
    kind = case["kind"]
    ctx.label("refusal_" + kind)
    ctx.nt()
    require(not config.free_arithmetics, "free_arithmetics_leaked", "")
    prelude = case.get("prelude")
    if prelude:
        # a free-arithmetics block entered and left earlier (normally / through a failing operation / nested):
        # afterwards everything below is refused as usual
        class _Boom(Exception):
            pass

        try:
            with config.enable_free_arithmetics():
                if prelude == "nested":
                    with config.enable_free_arithmetics(False):
                        pass
                if prelude in ("exception", "nested"):
                    raise _Boom()
        except _Boom:
            pass
        leaked = bool(config.free_arithmetics)
        if leaked:
            config.free_arithmetics = False  # do not let one failing case change the next ones
        require(not leaked, "free_arithmetics_leaked", f"after a block left by {prelude}")
        ctx.label("after_free_block_" + prelude)
    other = h.copy()
    if kind == "h*h":
        ctx.refused("h * h", lambda: h * other)
        ctx.refused("h *= h", h.__imul__, other)
    elif kind == "h/h":
        ctx.refused("h / h", lambda: h / other)
        ctx.refused("h /= h", h.__itruediv__, other)
    elif kind == "c/h":
        ctx.refused("c / h", lambda: 2.0 / h)
        ctx.refused("c / h (int)", lambda: 1 / h)
    elif kind == "negative":
        if not np.any(np.asarray(h.frequencies) != 0) and not any((not math.isnan(x)) and x != 0 for x in before["missed"]):
            return  # (nothing recorded at all: -0 is 0)
        # (all-zero contents with recorded underflow / overflow / missed: those counts would turn negative)
        c = case["c"]
        ctx.refused(f"h * {c}", lambda: h * c)
        ctx.refused(f"{c} * h", lambda: c * h)
        ctx.refused(f"h *= {c}", h.__imul__, c)
        ctx.refused(f"h / {c}", lambda: h / c)
    elif kind == "array0d":
        # zero-dimensional arrays are arrays, not constants
        for operand in (np.array(2.0), np.array(3), np.squeeze(np.array([0.5])), np.array(2, dtype=np.int16), np.asarray(np.float32(4.0))):
            ctx.refused(f"h * {operand!r} (0-d array)", lambda: h * operand)
            ctx.refused(f"{operand!r} (0-d array) * h", lambda: operand * h)
            ctx.refused(f"h / {operand!r} (0-d array)", lambda: h / operand)
            ctx.refused(f"h *= {operand!r} (0-d array)", h.__imul__, operand)
            ctx.refused(f"h /= {operand!r} (0-d array)", h.__itruediv__, operand)
    else:
        operand = np.ones(h.shape) * 2 if kind == "array" else (np.ones(h.shape) * 2).tolist()
        ctx.refused(f"h * {kind}", lambda: h * operand)
        ctx.refused(f"h / {kind}", lambda: h / operand)
        ctx.refused(f"h *= {kind}", h.__imul__, operand)
    after = snapshot(h)
    # a refused operation leaves the values alone (a lossless dtype promotion is tolerated: C18)
    require(snap_equal(before, after, ignore=("dtype", "freq_dtype", "err_dtype")), "refused_but_modified", lambda: snap_diff(before, after))


@st.composite
def refusal_cases(draw, tier="quick"):
    kind = draw(st.sampled_from(["h*h", "h/h", "c/h", "negative", "negative", "array", "list", "array0d"]))
    spec = draw(hgen.hist_spec(dims=(1, 2, 3), dtypes=["int64", "float64", "int32", "float32"], adaptive=False, allow_zero=draw(st.booleans())))
    if kind == "negative" and draw(st.integers(0, 2)) == 0:
        # nothing inside the bins, something recorded outside them
        def zero(x):
            return [zero(y) for y in x] if isinstance(x, list) else 0

        spec["freq"] = zero(spec["freq"])
        spec["err2"] = None
        spec["missed"] = [2, 1, 0] if len(spec["axes"]) == 1 else [3]
        spec["keep_missed"] = True
    return {"kind": kind, "spec": spec, "c": draw(st.sampled_from([-1, -2.5, -0.5, np.float64(-3.0).item()])),
            "prelude": draw(st.sampled_from([None, None, "normal", "exception", "nested"]))}


FINDINGS = []

SUBS = [
    Sub("scale", lambda tier: scale_cases(tier), check_scale, quick=700, thorough=5000),
    Sub("normalize", lambda tier: normalize_cases(tier), check_normalize, quick=500, thorough=3000),
    Sub("refusals", lambda tier: refusal_cases(tier), check_refusals, quick=300, thorough=1500),
]

RULE += ' Also: numpy integer scalars whose square leaves their own type (int8, int16, uint8, uint16, int32); contents scaled by 2^-40 / 2^-70 / 2^40 under normalisation; zero-dimensional arrays as factors (refused).'
