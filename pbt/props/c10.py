"""C10 — merge_bins conserves content and bin boundaries."""
from __future__ import annotations

import itertools
import math
from fractions import Fraction

import numpy as np
from hypothesis import strategies as st

from pbt import gen, hgen, model
from pbt.core import Ctx, Finding, Sub, Violation, require
from pbt.model import F
from pbt.snap import snapshot, snap_equal, snap_diff

LEVEL = "exploration"
RULE = (
    "Cases: 1-D / N-D histograms (1..15 bins per axis, irregular widths, gaps, all binning kinds, int/float dtypes, "
    "missed values, custom errors2) x amount >= 1 (also > bin count, non-divisors, non-integral) x axis None / index / "
    "name x inplace; min_frequency thresholds relative to the contents. Oracle: reference merge by explicit loops "
    "(run r = bins r*a .. min((r+1)a, n)-1; Fraction sums); refusal iff a run spans a gap or the amount is not "
    "integral; for min_frequency a validity predicate (unions of adjacent old bins, sums conserved, outer edges kept). "
    "Non-trivial: the amount does not divide the bin count, bins are irregular, an N-D histogram is merged on one "
    "axis, or a gap is present. distinct = SHA-1 of the case."
)
ASSUMPTIONS = ["amount=None without min_frequency, amounts <= 0 and float amounts with integral value are out of domain"]


def get(nested, idx):
    v = nested
    for i in idx:
        v = v[i]
    return v


def runs(n, amount):
    return [list(range(r, min(r + amount, n))) for r in range(0, n, amount)]


def spans_gap(pairs, run):
    return any(pairs[a][1] != pairs[b][0] for a, b in zip(run[:-1], run[1:]))


def check_amount(case, ctx: Ctx):
    spec = case["spec"]
    h = ctx.call("build", hgen.build, spec)
    before = snapshot(h)
    d = h.ndim
    shape = hgen.shape_of(spec)
    amount = case["amount"]
    axis = case["axis"]
    inplace = case["inplace"]
    axes_todo = list(range(d)) if axis is None else [axis % d]
    arg_axis = None if axis is None else (axes_todo[0] if case["axis_by"] == "index" else h.axis_names[axes_todo[0]])
    pairs = [model.pairs_of(b["bins"]) for b in before["binnings"]]
    kwargs = {"inplace": inplace}
    if arg_axis is not None:
        kwargs["axis"] = arg_axis
    ctx.label(f"d{d}", "inplace" if inplace else "copy", "axis_none" if axis is None else "axis_one")
    if isinstance(amount, float) and not float(amount).is_integer():
        ctx.label("refusal_non_integral")
        ctx.nt()
        ctx.refused(f"merge_bins({amount})", h.merge_bins, amount, **kwargs)
        require(snap_equal(before, snapshot(h)), "refused_but_modified", lambda: snap_diff(before, snapshot(h)))
        return
    must_refuse = any(spans_gap(pairs[a], run) for a in axes_todo for run in runs(shape[a], amount))
    if must_refuse:
        ctx.label("refusal_gap")
        ctx.nt()
        ctx.refused(f"merge_bins({amount}) across a gap", h.merge_bins, amount, **kwargs)
        if not inplace or len(axes_todo) == 1:
            require(snap_equal(before, snapshot(h)), "refused_but_modified", lambda: snap_diff(before, snapshot(h)))
        return
    m = ctx.call(f"merge_bins({amount}, {kwargs})", h.merge_bins, amount, **kwargs)
    if inplace:
        require(m is h, "inplace_returns_other", "")
    else:
        require(m is not h, "copy_returns_self", "")
        require(snap_equal(before, snapshot(h)), "original_modified", lambda: snap_diff(before, snapshot(h)))
    require(type(m).__name__ == before["class"], "class", type(m).__name__)
    after = snapshot(m)
    new_shape = list(shape)
    axis_runs = {}
    for a in range(d):
        axis_runs[a] = runs(shape[a], amount) if a in axes_todo else [[i] for i in range(shape[a])]
        new_shape[a] = len(axis_runs[a])
        want_bins = [[pairs[a][r[0]][0], pairs[a][r[-1]][1]] for r in axis_runs[a]]
        got = after["binnings"][a]["bins"]
        require(got == want_bins, "merged_bins", f"axis {a}: {got} vs {want_bins}")
    require(tuple(np.asarray(m.frequencies).shape) == tuple(new_shape), "shape", f"{np.asarray(m.frequencies).shape} vs {new_shape}")
    err = spec["err2"] if spec["err2"] is not None else spec["freq"]
    for idx in itertools.product(*[range(s) for s in new_shape]):
        f = e = Fraction(0)
        for old in itertools.product(*[axis_runs[a][idx[a]] for a in range(d)]):
            f += F(get(spec["freq"], old))
            e += F(get(err, old))
        gi = idx if d > 1 else idx[0]
        require(F(m.frequencies[gi]) == f, "merged_frequency", lambda: f"cell {idx}: {m.frequencies[gi]!r} want {float(f)}")
        require(F(m.errors2[gi]) == e, "merged_errors2", lambda: f"cell {idx}: {m.errors2[gi]!r} want {float(e)}")
    require(after["missed"] == before["missed"] or snap_equal({"m": after["missed"]}, {"m": before["missed"]}), "missed_changed", f"{after['missed']} vs {before['missed']}")
    if spec.get("narrow_overflow"):
        # sums that leave the narrow type: the result may (must) be wider, but consistently so
        require(after["dtype"] == after["freq_dtype"] == after["err_dtype"] and np.dtype(after["dtype"]).kind == "i", "dtype_changed", f"{after['dtype']}/{after['freq_dtype']}/{after['err_dtype']}")
    else:
        require(after["dtype"] == before["dtype"] == after["freq_dtype"] == after["err_dtype"], "dtype_changed", f"{after['dtype']}/{after['freq_dtype']} vs {before['dtype']}")
    tot = sum((F(x) for x in hgen.flat(spec["freq"])), Fraction(0))
    require(F(m.total) == tot, "total", f"{m.total} vs {float(tot)}")
    require(after["name"] == before["name"] and after["axis_names"] == before["axis_names"], "metadata_changed", "")
    irregular = any(len({round(r - l, 12) for l, r in pairs[a]}) > 1 for a in axes_todo)
    gapped = any(model.gaps(pairs[a]) for a in range(d))
    ctx.nt(any(shape[a] % amount for a in axes_todo) or irregular or (d > 1 and axis is not None) or gapped)
    if amount > max(shape):
        ctx.label("amount_exceeds_bins")


@st.composite
def amount_cases(draw, tier="quick"):
    d = draw(st.sampled_from([1, 1, 2, 3]))
    spec = draw(hgen.hist_spec(dims=(d,), dtypes=["int32", "int64", "float32", "float64"], max_bins=15 if d == 1 else 6, adaptive=draw(st.sampled_from([False, False, False, True])),
                               gapped=None, narrow=True))  # narrow=True: also real gaps far below physt's allclose tolerance (the merge check is exact)
    if d > 1 and draw(st.integers(0, 3)) == 0:
        # put gaps on one axis of an N-D histogram
        j = draw(st.integers(0, d - 1))
        ax = spec["axes"][j]
        if ax["form"] in ("pairs", "static") and len(ax["pairs"]) >= 2:
            for p in ax["pairs"][:-1]:
                if draw(st.booleans()):
                    p[1] = p[0] + (p[1] - p[0]) * 0.5
    amount = draw(st.one_of(st.integers(1, 5), st.integers(1, 20), st.sampled_from([1.5, 2.5, 0.5]),
                            # almost integral is not integral
                            st.sampled_from([2.00001, 2 + 1e-9, math.nextafter(2.0, 3.0), math.nextafter(3.0, 2.0), 1.999995, 0.3 / 0.1, 1 + 1e-12])))
    if spec["dtype"] == "int32" and draw(st.integers(0, 2)) == 0:
        # every bin fits its narrow type, the merged runs do not
        def big(x):
            return [big(y) for y in x] if isinstance(x, list) else draw(st.sampled_from([2 ** 30, 2 ** 30 + 7, 2 ** 31 - 1, 5, 0]))

        spec["freq"] = big(spec["freq"])
        spec["err2"] = None
        spec["narrow_overflow"] = True
    if d == 1 and spec["dtype"] == "int64" and draw(st.integers(0, 3)) == 0:
        # counts beyond 2**53: sums must stay exact integers (no detour through floating point)
        spec["freq"] = [draw(st.sampled_from([2 ** 53 + 1, 2 ** 53 + 3, 2 ** 55 + 1, 7, 0, 2 ** 54 - 1])) for _ in spec["freq"]]
        spec["err2"] = None
    axis = draw(st.one_of(st.none(), st.integers(0, 3)))
    return {"spec": spec, "amount": amount, "axis": axis, "axis_by": draw(st.sampled_from(["index", "name"])), "inplace": draw(st.booleans())}


# ---------------------------------------------------------------------------------
# min_frequency


def check_min_frequency(case, ctx: Ctx):
    spec = case["spec"]
    h = ctx.call("build", hgen.build, spec)
    before = snapshot(h)
    d = h.ndim
    shape = hgen.shape_of(spec)
    vals = sorted(float(F(x)) for x in hgen.flat(spec["freq"]))
    thr = case["threshold"]
    min_frequency = {"zero": 0, "min": vals[0], "median": vals[len(vals) // 2], "max": vals[-1], "double_max": 2 * vals[-1] + 1,
                     "total": sum(vals), "half": 0.5}[thr] * (1 if not case["scale"] else case["scale"])
    axis = case["axis"] % d
    kwargs = {"min_frequency": min_frequency, "inplace": case["inplace"]}
    if d > 1 or case["give_axis"]:
        kwargs["axis"] = axis
    pairs = [model.pairs_of(b["bins"]) for b in before["binnings"]]
    gapped = bool(model.gaps(pairs[axis]))
    ok, m = ctx.maybe(h.merge_bins, **kwargs)
    if not ok:
        require(gapped, "refused_without_gap", f"merge_bins(min_frequency={min_frequency}): {type(m).__name__}: {m}")
        ctx.label("refused_gap")
        if not case["inplace"]:
            require(snap_equal(before, snapshot(h)), "refused_but_modified", lambda: snap_diff(before, snapshot(h)))
        return
    if not case["inplace"]:
        require(snap_equal(before, snapshot(h)), "original_modified", lambda: snap_diff(before, snapshot(h)))
    else:
        require(m is h, "inplace_returns_other", "")
    after = snapshot(m)
    new_bins = [tuple(b) for b in after["binnings"][axis]["bins"]]
    old = pairs[axis]
    # every new bin is a union of adjacent old bins, in order, nothing dropped
    pos = 0
    groups = []
    for l, r in new_bins:
        require(pos < len(old) and old[pos][0] == l, "new_edge_not_old_edge", f"new bin ({l},{r}) does not start at old bin {pos} {old[pos] if pos < len(old) else None}")
        grp = [pos]
        while old[pos][1] != r:
            require(pos + 1 < len(old) and old[pos][1] == old[pos + 1][0], "union_not_adjacent", f"new bin ({l},{r}) old {old}")
            pos += 1
            grp.append(pos)
        pos += 1
        groups.append(grp)
    require(pos == len(old), "bins_lost", f"{new_bins} vs {old}")
    require(new_bins[0][0] == old[0][0] and new_bins[-1][1] == old[-1][1], "outer_edges_changed", "")
    for a in range(d):
        if a != axis:
            require(after["binnings"][a]["bins"] == before["binnings"][a]["bins"], "other_axis_changed", f"axis {a}")
    err = spec["err2"] if spec["err2"] is not None else spec["freq"]
    new_shape = list(shape)
    new_shape[axis] = len(groups)
    for idx in itertools.product(*[range(s) for s in new_shape]):
        f = e = Fraction(0)
        for o in groups[idx[axis]]:
            oi = list(idx)
            oi[axis] = o
            f += F(get(spec["freq"], oi))
            e += F(get(err, oi))
        gi = idx if d > 1 else idx[0]
        require(F(m.frequencies[gi]) == f, "merged_frequency", lambda: f"cell {idx}: {m.frequencies[gi]!r} want {float(f)}")
        require(F(m.errors2[gi]) == e, "merged_errors2", lambda: f"cell {idx}")
    tot = sum((F(x) for x in hgen.flat(spec["freq"])), Fraction(0))
    require(F(m.total) == tot, "total", f"{m.total} vs {float(tot)}")
    require(snap_equal({"m": after["missed"]}, {"m": before["missed"]}), "missed_changed", "")
    ctx.label(f"d{d}", "thr_" + thr, "merged" if len(groups) < len(old) else "unchanged")
    ctx.nt(1 < len(groups) < len(old) or d > 1)


@st.composite
def min_frequency_cases(draw, tier="quick"):
    d = draw(st.sampled_from([1, 1, 2, 3]))
    spec = draw(hgen.hist_spec(dims=(d,), dtypes=["int64", "float64", "int32"], max_bins=12 if d == 1 else 5, adaptive=False, narrow=True))
    return {"spec": spec, "threshold": draw(st.sampled_from(["zero", "min", "median", "median", "max", "double_max", "total", "half"])),
            "scale": draw(st.sampled_from([None, None, 0.5, 1.5, 3])), "axis": draw(st.integers(0, 2)), "inplace": draw(st.booleans()),
            "give_axis": draw(st.booleans())}


FINDINGS = []

SUBS = [
    Sub("amount", lambda tier: amount_cases(tier), check_amount, quick=900, thorough=6000),
    Sub("min_frequency", lambda tier: min_frequency_cases(tier), check_min_frequency, quick=500, thorough=3000),
]

RULE += ' Also: amounts that are almost integral (refused); int64 counts beyond 2^53.'
