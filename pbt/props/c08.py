"""C08 — JSON round trip reproduces the histogram exactly."""
from __future__ import annotations

import atexit
import json
import math
import os
import shutil
import tempfile

import numpy as np
from hypothesis import strategies as st

from pbt import gen, hgen, model
from pbt.core import Ctx, Finding, Sub, Violation, require
from pbt.snap import same, snapshot

LEVEL = "exploration"
RULE = (
    "Cases: histograms of every class (Histogram1D/2D/ND, Radial, Azimuthal, Polar, SphericalSurface, "
    "CylindricalSurface, Spherical, Cylindrical) x per-axis binning type (Static incl. gapped, Numpy, FixedWidth incl. "
    "adaptive and empty, Exponential) x dtype (int16..float64, float128) x missed values (incl. NaN markers in 1-D) x "
    "keep_missed x custom errors2 x metadata (unicode names, nested JSON-able custom entries); through "
    "parse_json(to_json()) and save_json(path)/load_json(path); collections of 0-4 members; documents with a generated "
    "physt_compatible version. Non-trivial: missed != 0, a NaN marker, keep_missed=False, adaptive, custom metadata or "
    "a dtype other than int64/float64. distinct = SHA-1 of the case."
)
ASSUMPTIONS = [
    "includes_right_edge, statistics and a collection's own name/title are not in the statement and are not compared",
    "version strings are numeric release segments a.b.c (no pre-release / epoch forms)",
]

_TMP = None


def tmpdir():
    global _TMP
    if _TMP is None:
        _TMP = tempfile.mkdtemp(prefix="pbt-c08-")
        atexit.register(shutil.rmtree, _TMP, ignore_errors=True)
    return _TMP


def norm_meta(m):
    def n(v):
        if isinstance(v, tuple):
            return [n(x) for x in v]
        if isinstance(v, list):
            return [n(x) for x in v]
        if isinstance(v, dict):
            return {k: n(x) for k, x in v.items()}
        return v

    return {k: n(v) for k, v in m.items()}


def compare_histograms(ctx, a, b, what=""):
    require(type(a) is type(b), "class", f"{what}{type(a).__name__} -> {type(b).__name__}")
    require(a.ndim == b.ndim, "ndim", what)
    for i, (x, y) in enumerate(zip(a.binnings, b.binnings)):
        require(type(x) is type(y), "binning_type", f"{what}axis {i}: {type(x).__name__} -> {type(y).__name__}")
        bx, by = np.asarray(x.bins, dtype=float), np.asarray(y.bins, dtype=float)
        require(bx.shape == by.shape and bx.tobytes() == by.tobytes(), "bins", f"{what}axis {i}: {bx.tolist()} -> {by.tolist()}")
        require(x.is_adaptive() == y.is_adaptive(), "adaptivity", f"{what}axis {i}: {x.is_adaptive()} -> {y.is_adaptive()}")
    require(a.dtype == b.dtype and a.frequencies.dtype == b.frequencies.dtype and a.errors2.dtype == b.errors2.dtype, "dtype",
            f"{what}{a.dtype}/{a.frequencies.dtype}/{a.errors2.dtype} -> {b.dtype}/{b.frequencies.dtype}/{b.errors2.dtype}")
    require(a.frequencies.shape == b.frequencies.shape and a.frequencies.tobytes() == b.frequencies.tobytes(), "frequencies",
            f"{what}{a.frequencies.tolist()} -> {b.frequencies.tolist()}")
    require(a.errors2.shape == b.errors2.shape and a.errors2.tobytes() == b.errors2.tobytes(), "errors2",
            f"{what}{a.errors2.tolist()} -> {b.errors2.tolist()}")
    require(bool(a.keep_missed) == bool(b.keep_missed), "keep_missed", f"{what}{a.keep_missed} -> {b.keep_missed}")
    sa, sb = snapshot(a, stats=False), snapshot(b, stats=False)
    require(same(sa["missed"], sb["missed"]), "missed", f"{what}{sa['missed']} -> {sb['missed']}")
    require(a.is_adaptive() == b.is_adaptive(), "adaptivity", what)
    require(a.name == b.name and a.title == b.title and tuple(a.axis_names) == tuple(b.axis_names), "names",
            f"{what}{a.name!r},{a.title!r},{a.axis_names} -> {b.name!r},{b.title!r},{b.axis_names}")
    ma, mb = norm_meta(a.meta_data), norm_meta(b.meta_data)
    require(same(ma, mb), "metadata", f"{what}{ma} -> {mb}")
    nan_missed = any(isinstance(x, float) and math.isnan(x) for x in sa["missed"])
    if not (a.ndim > 1 and nan_missed):
        require(bool(a == b) and bool(b == a), "not_equal", f"{what}a == b is False")


def roundtrip(ctx, h, via):
    from physt.io import load_json, parse_json, save_json

    if via == "text":
        text = ctx.call("to_json", h.to_json)
        back = ctx.call("parse_json", parse_json, text)
    elif via == "file":
        path = os.path.join(tmpdir(), f"h{os.getpid()}.json")
        text = ctx.call("to_json(path)", h.to_json, path)
        require(os.path.exists(path), "file_not_written", f"to_json({path!r}) wrote nothing")
        with open(path, "r", encoding="utf-8") as f:
            require(f.read() == text, "file_differs_from_text", "")
        back = ctx.call("load_json", load_json, path)
    else:
        path = os.path.join(tmpdir(), f"s{os.getpid()}.json")
        text = ctx.call("save_json(path)", save_json, h, path)
        back = ctx.call("load_json", load_json, path)
    return text, back


def check_roundtrip(case, ctx: Ctx):
    import physt

    spec = case["spec"]
    if spec.get("empty_adaptive"):
        d = spec["d"]
        if d == 1:
            h = ctx.call("h1(None adaptive)", physt.h1, None, "fixed_width", bin_width=spec["w"], adaptive=True, name=spec.get("name"))
        else:
            h = ctx.call("h(None adaptive)", physt.h, None, "fixed_width", bin_width=spec["w"], adaptive=True, dim=d)
        if spec.get("fill") is not None:
            ctx.call("fill", h.fill, spec["fill"] if d == 1 else [spec["fill"]] * d)
        ctx.label("built_adaptive_facade")
    else:
        h = ctx.call("build", hgen.build, spec)
    ctx.label("class_" + type(h).__name__, "dtype_" + str(h.dtype), *("bin_" + type(b).__name__ for b in h.binnings))
    text, back = roundtrip(ctx, h, case["via"])
    compare_histograms(ctx, h, back)
    text2 = ctx.call("to_json (2nd)", back.to_json)
    d1, d2 = json.loads(text), json.loads(text2)
    require(same(d1, d2), "second_serialisation_differs", lambda: f"{ {k: (d1.get(k), d2.get(k)) for k in set(d1) | set(d2) if not same(d1.get(k), d2.get(k))} }")
    s = snapshot(h, stats=False)
    nt = (any((isinstance(x, float) and (math.isnan(x) or x != 0)) or (isinstance(x, int) and x != 0) for x in s["missed"])
          or not h.keep_missed or h.is_adaptive() or len(set(h.meta_data) - {"name", "title", "axis_names"}) > 0
          or str(h.dtype) not in ("int64", "float64"))
    ctx.nt(nt)
    if h.is_adaptive():
        ctx.label("adaptive")
    if not h.keep_missed:
        ctx.label("keep_missed_false")


@st.composite
def roundtrip_cases(draw, tier="quick"):
    via = draw(st.sampled_from(["text", "text", "file", "save"]))
    if draw(st.integers(0, 11)) == 0:
        d = draw(st.sampled_from([1, 1, 2, 3]))
        return {"via": via, "spec": {"empty_adaptive": True, "d": d, "w": draw(st.sampled_from([0.5, 1.0, 0.1, 2.5])),
                                     "fill": draw(st.one_of(st.none(), st.floats(-20, 20, allow_nan=False))), "name": draw(st.sampled_from([None, "a"]))}}
    dtypes = hgen.ALL_DTYPES + (["float128"] if draw(st.integers(0, 15)) == 0 else [])
    # narrow=True: also real gaps far below physt's own allclose tolerance - the edges must come back bit for bit
    spec = draw(hgen.hist_spec(dims=(1, 1, 2, 2, 3, 4), dtypes=dtypes, max_bins=5, nan_missed=True, near_err=True, narrow=True))
    d = len(spec["axes"])
    spec["class"] = draw(st.sampled_from(hgen.CLASSES_BY_DIM[d]))
    if d > 1:
        spec["missed"] = [0 if isinstance(spec["missed"][0], float) and math.isnan(spec["missed"][0]) else spec["missed"][0]]
    if spec["dtype"] == "int64" and draw(st.integers(0, 3)) == 0:
        # counts that no float64 can carry: the document holds integers and they must come back as they are
        big = st.sampled_from([2 ** 53 + 1, 2 ** 53 + 3, 2 ** 62 + 1, 2 ** 63 - 1, 7, 0])
        spec["freq"] = hgen.nested(draw, hgen.shape_of(spec), big)
        spec["err2"] = hgen.nested(draw, hgen.shape_of(spec), big) if draw(st.booleans()) else None
    return {"via": via, "spec": spec}


# ---------------------------------------------------------------------------------
# collections


def check_collection(case, ctx: Ctx):
    from physt.histogram1d import Histogram1D
    from physt.histogram_collection import HistogramCollection
    from physt.io import parse_json

    ax = case["axis"]
    binning = hgen.build_axis(ax)
    from physt.binnings import as_binning
    from physt.special_histograms import AzimuthalHistogram, RadialHistogram

    binning = as_binning(binning)
    ctx.label("member_class_" + str(case.get("member_class", "plain")))
    members = []
    for i, m in enumerate(case["members"]):
        kw = {}
        if m.get("err2") is not None:
            kw["errors2"] = np.array(m["err2"], dtype=m["dtype"])
        klass = {"radial": RadialHistogram, "azimuthal": AzimuthalHistogram}.get(case.get("member_class"), Histogram1D)
        members.append(klass(binning, np.array(m["freq"], dtype=m["dtype"]), name=m.get("name"), underflow=m["missed"][0],
                                   overflow=m["missed"][1], inner_missed=m["missed"][2], keep_missed=m["keep_missed"], dtype=np.dtype(m["dtype"]), **kw))
    if members:
        col = ctx.call("HistogramCollection", HistogramCollection, *members, name=case.get("name"))
    else:
        col = ctx.call("HistogramCollection(binning)", HistogramCollection, binning=binning, name=case.get("name"))
    ctx.label(f"members_{len(members)}")
    text = ctx.call("collection.to_json", col.to_json)
    back = ctx.call("parse_json(collection)", parse_json, text)
    require(type(back).__name__ == "HistogramCollection", "class", type(back).__name__)
    require(len(back) == len(col), "member_count", f"{len(back)} vs {len(col)}")
    for i, (a, b) in enumerate(zip(col.histograms, back.histograms)):
        compare_histograms(ctx, a, b, f"member {i}: ")
    require(bool(back == col), "collection_not_equal", "")
    d1, d2 = json.loads(text), json.loads(ctx.call("to_json (2nd)", back.to_json))
    require(same(d1, d2), "second_serialisation_differs", "")
    ctx.nt(len(members) >= 2 or len(members) == 0)


@st.composite
def collection_cases(draw, tier="quick"):
    ax = draw(hgen.axis(1, 6, forms=("static", "numpy", "fixed", "exp", "pairs")))
    n = len(ax["pairs"])
    k = draw(st.sampled_from([0, 1, 2, 2, 3, 4]))
    members = []
    for i in range(k):
        dtype = draw(st.sampled_from(["int64", "float64", "int32", "float32"]))
        freq = draw(st.lists(hgen.content_values(dtype), min_size=n, max_size=n))
        err2 = draw(st.one_of(st.none(), st.lists(hgen.content_values(dtype), min_size=n, max_size=n)))
        members.append({"dtype": dtype, "freq": freq, "err2": err2, "name": draw(st.sampled_from([None, "a", "b", "č"])) if i else "first",
                        "missed": [draw(hgen.content_values(dtype)) for _ in range(3)], "keep_missed": draw(st.sampled_from([True, True, False]))})
    return {"axis": ax, "members": members, "name": draw(st.sampled_from([None, "col"])),
            "member_class": draw(st.sampled_from(["plain", "plain", "radial", "azimuthal"]))}


# ---------------------------------------------------------------------------------
# versions


def vtuple(s):
    return tuple(int(x) for x in s.split("."))


def check_version(case, ctx: Ctx):
    import physt
    from physt.io import parse_json

    h = ctx.call("build", hgen.build, case["spec"])
    doc = json.loads(ctx.call("to_json", h.to_json))
    require(doc.get("physt_version") == physt.__version__, "physt_version_field", f"{doc.get('physt_version')}")
    require(vtuple(doc["physt_compatible"]) <= vtuple(physt.__version__), "compatible_newer_than_current", doc["physt_compatible"])
    ver = case["version"]
    doc["physt_compatible"] = ver
    text = json.dumps(doc)
    cur = vtuple(physt.__version__)
    v = vtuple(ver)
    ln = max(len(cur), len(v))
    newer = v + (0,) * (ln - len(v)) > cur + (0,) * (ln - len(cur))
    ctx.label("newer" if newer else "not_newer")
    ctx.nt(abs(sum(v) - sum(cur)) <= 2)
    if newer:
        exc = ctx.refused(f"parse_json with physt_compatible={ver}", parse_json, text)
        require(type(exc).__name__ == "VersionError", "wrong_error_for_newer_version", f"{type(exc).__name__}: {exc}")
    else:
        back = ctx.call(f"parse_json with physt_compatible={ver}", parse_json, text)
        compare_histograms(ctx, h, back)


@st.composite
def version_cases(draw, tier="quick"):
    spec = draw(hgen.hist_spec(dims=(1, 2), dtypes=["int64", "float64"], max_bins=3, adaptive=False, rich_meta=False))
    cur = (0, 8, 4)
    form = draw(st.sampled_from(["near", "near", "any", "short", "long"]))
    if form == "near":
        v = [max(0, c + draw(st.integers(-1, 1))) for c in cur]
    elif form == "any":
        v = [draw(st.integers(0, 2)), draw(st.integers(0, 20)), draw(st.integers(0, 30))]
    elif form == "short":
        v = [draw(st.integers(0, 1)), draw(st.integers(0, 12))]
    else:
        v = [draw(st.integers(0, 1)), draw(st.integers(7, 9)), draw(st.integers(3, 5)), draw(st.integers(0, 2))]
    return {"spec": spec, "version": ".".join(str(x) for x in v)}


def _is_d32(sub, case, v):
    """float128 contents cannot be serialised (numpy.longdouble is not JSON serialisable)."""
    return (sub == "roundtrip" and v.kind == "raised:TypeError" and "not JSON serializable" in v.detail
            and case["spec"].get("dtype") == "float128")


FINDINGS = [Finding("D32", _is_d32, "float128 histograms cannot be serialised to JSON (TypeError: longdouble is not JSON serializable)")]

SUBS = [
    Sub("roundtrip", lambda tier: roundtrip_cases(tier), check_roundtrip, quick=1500, thorough=8000),
    Sub("collection", lambda tier: collection_cases(tier), check_collection, quick=300, thorough=2000),
    Sub("version", lambda tier: version_cases(tier), check_version, quick=300, thorough=2000),
]

RULE += ' Also: gaps far below the allclose tolerance (edges compared bit for bit); collections of Radial / Azimuthal members.'
