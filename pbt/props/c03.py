"""C03 — incremental filling (fill / fill_n) equals batch construction."""
from __future__ import annotations

import itertools
import math
from fractions import Fraction

import numpy as np
from hypothesis import strategies as st

from pbt import gen, model
from pbt.core import Ctx, Finding, Sub, Violation, require
from pbt.model import F
from pbt.snap import snapshot, snap_equal

LEVEL = "exploration"
RULE = (
    "A case is a program: fixed bins (1-D consecutive or gapped, Static/Numpy/FixedWidth; N-D d=2..3 with right-edge "
    "inclusion on or off), keep_missed on/off, and a generated list of steps fill(v, w) / fill_n(chunk, weights) / "
    "find_bin(v) / h << v over a weighted data multiset (values on edges, 1 ulp beside, in gaps, outside, NaN in "
    "chunks, empty chunks). The exact model is compared after every step and the final histogram with the one built "
    "at once. Non-trivial: the program uses at least two entry paths and contains a value on the last edge, outside "
    "the bins or in a gap. distinct = SHA-1 of the canonical program."
)
ASSUMPTIONS = [
    "weights are ints or dyadic rationals, so every summation order is exact and equality is bit-exact",
    "for gapped 1-D bins under/overflow may read NaN (unknown) at any time; a number, if reported, must be exact, and "
    "after a value fell into a gap they must read NaN",
]


def build_1d_binning(case):
    from physt.binnings import FixedWidthBinning, NumpyBinning, StaticBinning

    ps = case["pairs"]
    form = case["binform"]
    if form == "static":
        return StaticBinning(np.array(ps))
    if form == "numpy":
        return NumpyBinning(np.array([p[0] for p in ps] + [ps[-1][1]]))
    if form == "fixed":
        return FixedWidthBinning(bin_width=case["w"], bin_count=len(ps), min=ps[0][0])
    raise AssertionError(form)


def _w(x):
    return 1 if x is None else x


def check_1d(case, ctx: Ctx):
    import physt
    from physt.histogram1d import Histogram1D

    binning = build_1d_binning(case)
    keep = case["keep_missed"]
    kwargs = {"keep_missed": keep}
    if case.get("dtype"):
        kwargs["dtype"] = case["dtype"]
    h = ctx.call("Histogram1D()", Histogram1D, binning, **kwargs)
    if case.get("start") == "emptied_copy" and h.bin_count:
        # the empty histogram is obtained from a used one: copy(include_frequencies=False)
        h.fill(float((h.bins[0][0] + h.bins[0][1]) / 2))
        h.fill_n(np.array([float((h.bins[-1][0] + h.bins[-1][1]) / 2)] * 2))
        h = ctx.call("copy(include_frequencies=False)", lambda: h.copy(include_frequencies=False))
        ctx.label("start_emptied_copy")
    ps = model.pairs_of(h.bins)
    n = len(ps)
    gapped = bool(model.gaps(ps))
    freq = [Fraction(0)] * n
    err2 = [Fraction(0)] * n
    under = over = Fraction(0)
    gap_hit = False
    all_v, all_w = [], []
    paths = set()
    interesting = False
    weighted = False

    def enter(v, w):
        nonlocal under, over, gap_hit, interesting
        if math.isnan(v):
            return "nan"
        i = model.locate(ps, v)
        if i is None:
            gap_hit = True
            interesting = True
        elif i == -1:
            if keep:
                under += F(w)
            interesting = True
        elif i == n:
            if keep:
                over += F(w)
            interesting = True
        else:
            freq[i] += F(w)
            err2[i] += F(w) * F(w)
            if v == ps[-1][1]:
                interesting = True
        return i

    nokeep_initial = (repr(h.missed), repr(h.to_dict()["missed"])) if not keep else None

    def compare(step):
        for i in range(n):
            require(F(h.frequencies[i]) == freq[i], "frequency", lambda: f"after {step}: bin {i}: {h.frequencies[i]!r} want {float(freq[i])}")
            require(F(h.errors2[i]) == err2[i], "errors2", lambda: f"after {step}: bin {i}: {h.errors2[i]!r} want {float(err2[i])}")
        u, o = float(h.underflow), float(h.overflow)
        if not keep:
            require(math.isnan(u) and math.isnan(o), "keep_missed_false_reports_numbers", f"after {step}: {u},{o}")
            # nothing may change behind the scenes either: the total missed count and the serialised counters stay as they were
            now = (repr(h.missed), repr(h.to_dict()["missed"]))
            require(now == nokeep_initial, "keep_missed_false_but_counters_changed", f"after {step}: missed / to_dict()['missed'] {nokeep_initial} -> {now}")
            return
        if gapped:
            require(math.isnan(u) or F(u) == under, "underflow", f"after {step}: {u} want {float(under)} or nan")
            require(math.isnan(o) or F(o) == over, "overflow", f"after {step}: {o} want {float(over)} or nan")
            if gap_hit:
                require(math.isnan(u) and math.isnan(o), "gap_hit_but_missed_known", f"after {step}: {u},{o}")
        else:
            require(not math.isnan(u) and F(u) == under, "underflow", f"after {step}: {u} want {float(under)}")
            require(not math.isnan(o) and F(o) == over, "overflow", f"after {step}: {o} want {float(over)}")

    for k, op in enumerate(case["ops"]):
        kind = op[0]
        if kind == "fill" or kind == "lshift":
            v, w = float(op[1]), op[2] if kind == "fill" else None
            if math.isnan(v):
                ctx.label("scalar_nan")
            if kind == "fill":
                if w is None:
                    r = ctx.call(f"fill({v!r})", h.fill, v)
                else:
                    r = ctx.call(f"fill({v!r},{w!r})", h.fill, v, w)
                    weighted = True
            else:
                ctx.call(f"<< {v!r}", h.__lshift__, v)
                r = "n/a"
            want = enter(v, _w(w))
            if want == "nan":
                # a NaN is "skipped together with its weight" on every path (C01/C03)
                want = r if r in (None, n) else "none-or-overflow-index"
            if r != "n/a":
                require(r == want, "fill_return", f"step {k} fill({v!r}) returned {r!r}, model {want!r}")
            if not math.isnan(v):
                all_v.append(v)
                all_w.append(_w(w))
            paths.add(kind)
        elif kind == "fill_n":
            vs = [float(x) for x in op[1]]
            ws = op[2]
            arr = np.array(vs, dtype=float)
            if ws is None:
                ctx.call(f"fill_n({vs})", h.fill_n, arr)
            else:
                weighted = True
                warr = np.array(ws, dtype=np.int64 if all(isinstance(x, int) for x in ws) else np.float64)
                ctx.call(f"fill_n({vs}, weights={ws})", h.fill_n, arr, warr)
            for j, v in enumerate(vs):
                w = 1 if ws is None else ws[j]
                if enter(v, w) != "nan":
                    all_v.append(v)
                    all_w.append(w)
                else:
                    ctx.label("nan_in_chunk")
            if not vs:
                ctx.label("empty_chunk")
            paths.add("fill_n")
        elif kind == "find":
            v = float(op[1])
            before = snapshot(h)
            r = ctx.call(f"find_bin({v!r})", h.find_bin, v)
            if not math.isnan(v):
                want = model.locate(ps, v)
                require(r == want, "find_bin", f"step {k} find_bin({v!r}) = {r!r}, model {want!r}")
                # the (only) axis may be named explicitly, by index or by name
                r0 = ctx.call(f"find_bin({v!r}, axis=0)", h.find_bin, v, 0)
                rn = ctx.call(f"find_bin({v!r}, axis=name)", h.find_bin, v, h.axis_name)
                require(r0 == want and rn == want, "find_bin_axis", f"step {k} find_bin({v!r}, axis) = {r0!r} / {rn!r}, model {want!r}")
                ctx.refused("find_bin with an unknown axis", h.find_bin, v, 3)
            require(snap_equal(before, snapshot(h)), "find_bin_mutates", f"step {k} find_bin({v!r})")
            ctx.label("find")
        compare(f"step {k} {op[0]}")
    # final: equals the histogram built at once over the same bins
    if all(not math.isnan(v) for v in all_v):
        b2 = build_1d_binning(case)
        kw = {"keep_missed": keep}
        if weighted:
            kw["weights"] = np.array(all_w, dtype=np.int64 if all(isinstance(x, int) for x in all_w) else np.float64)
        hb = ctx.call("h1(all data)", physt.h1, np.array(all_v, dtype=float), b2, **kw)
        require(np.array_equal(hb.frequencies, h.frequencies), "batch_frequencies", f"{hb.frequencies} vs {h.frequencies}")
        require(np.array_equal(hb.errors2, h.errors2), "batch_errors2", f"{hb.errors2} vs {h.errors2}")
        if keep and not gapped:
            require(F(hb.underflow) == F(h.underflow) and F(hb.overflow) == F(h.overflow), "batch_missed",
                    f"{hb.underflow},{hb.overflow} vs {h.underflow},{h.overflow}")
    ctx.label("gapped" if gapped else "consecutive", "keep" if keep else "nokeep", f"paths{len(paths)}")
    ctx.nt(len(paths) >= 2 and interesting)


@st.composite
def programs_1d(draw, tier="quick"):
    form = draw(st.sampled_from(["static", "static", "numpy", "fixed", "fixed"]))
    case = {"binform": form}
    if form == "fixed":
        w = draw(st.sampled_from([0.25, 0.5, 1.0, 0.1, 2.5, 0.3, 0.7, 0.01, 3.3, 0.2]))
        n = draw(st.integers(1, 8))
        mn = draw(st.integers(-8, 8)) * w
        case["w"] = w
        ps = [[mn + i * w, mn + (i + 1) * w] for i in range(n)]
    elif form == "static":
        ps = draw(gen.pairs(1, 8))
    else:
        ps = draw(gen.pairs(1, 8, gapped=False))
    case["pairs"] = ps
    case["keep_missed"] = draw(st.sampled_from([True, True, False]))
    case["dtype"] = draw(st.sampled_from([None, None, "float64", "int64"]))
    wk = draw(st.sampled_from(["none", "int", "dyadic"]))
    if case["dtype"] == "int64" and wk == "dyadic":
        wk = "int"
    span = ps[-1][1] - ps[0][0]
    outside = st.sampled_from([ps[0][0] - span, ps[-1][1] + span, ps[0][0] - 0.5 * span, gen.nextafter(ps[0][0], False), gen.nextafter(ps[-1][1], True)])
    val = st.one_of(st.sampled_from(gen.special_values(ps)), st.floats(ps[0][0], ps[-1][1], allow_nan=False), outside)
    frac = st.builds(lambda k, m: (2 * k + 1) / (1 << m), st.integers(0, 20), st.integers(1, 3))  # never integral
    wgt = {"none": st.none(), "int": st.one_of(st.none(), st.integers(0, 5)), "dyadic": st.one_of(st.none(), frac, frac, gen.dyadics(64, 3))}[wk]
    nan_ok = draw(st.booleans())
    chunk_val = st.one_of(val, st.just(float("nan"))) if nan_ok else val

    @st.composite
    def op(draw):
        k = draw(st.sampled_from(["fill", "fill", "fill_n", "fill_n", "find", "lshift"]))
        if k == "fill":
            v = draw(st.one_of(val, st.just(float("nan")))) if nan_ok and draw(st.integers(0, 9)) == 0 else draw(val)
            return ["fill", v, draw(wgt)]
        if k == "lshift":
            return ["lshift", draw(val)]
        if k == "find":
            return ["find", draw(val)]
        vs = draw(st.lists(chunk_val, max_size=8))
        if wk == "none" or draw(st.booleans()):
            ws = None
        elif wk == "int":
            ws = draw(st.lists(st.integers(0, 5), min_size=len(vs), max_size=len(vs)))
        else:
            ws = draw(st.lists(gen.dyadics(64, 3), min_size=len(vs), max_size=len(vs)))
        return ["fill_n", vs, ws]

    case["ops"] = draw(st.lists(op(), min_size=1, max_size=25 if tier == "thorough" else 12))
    case["start"] = draw(st.sampled_from(["fresh", "fresh", "emptied_copy"]))
    return case


# ---------------------------------------------------------------------------------
# N-D


def build_nd_binnings(case):
    from pbt.props.c02 import build_axis

    out = []
    for ax in case["axes"]:
        b = build_axis(ax)
        out.append(b)
    return out


def check_nd(case, ctx: Ctx):
    import physt
    from physt.histogram_nd import Histogram2D, HistogramND
    from physt.binnings import as_binning

    d = len(case["axes"])
    binnings = [as_binning(b) for b in build_nd_binnings(case)]
    keep = case["keep_missed"]
    klass = Histogram2D if d == 2 else HistogramND
    h = ctx.call("HistogramND()", klass, binnings, keep_missed=keep)
    if case.get("start") == "emptied_copy" and all(b.bin_count for b in h.binnings):
        mid = [float((b.bins[0][0] + b.bins[0][1]) / 2) for b in h.binnings]
        h.fill(mid)
        h.fill_n(np.array([mid, mid]))
        h = ctx.call("copy(include_frequencies=False)", lambda: h.copy(include_frequencies=False))
        ctx.label("start_emptied_copy")
    axes_pairs = [model.pairs_of(b) for b in h.bins]
    incl = [bool(b.includes_right_edge) for b in h.binnings]
    shape = tuple(len(p) for p in axes_pairs)
    cells, cells2 = {}, {}
    missed = Fraction(0)
    all_rows, all_w = [], []
    paths = set()
    interesting = False
    weighted = False

    def enter(row, w):
        nonlocal missed, interesting
        if any(math.isnan(x) for x in row):
            return "nan"
        idx = model.locate_nd(axes_pairs, incl, row)
        if idx is None:
            if keep:
                missed += F(w)
            interesting = True
        else:
            cells[idx] = cells.get(idx, Fraction(0)) + F(w)
            cells2[idx] = cells2.get(idx, Fraction(0)) + F(w) * F(w)
        if any(x == ps[-1][1] for x, ps in zip(row, axes_pairs)):
            interesting = True
        return idx

    def compare(step):
        require(h.frequencies.shape == shape, "shape", f"after {step}")
        for idx in itertools.product(*[range(s) for s in shape]):
            require(F(h.frequencies[idx]) == cells.get(idx, 0), "frequency",
                    lambda: f"after {step}: cell {idx}: {h.frequencies[idx]!r} want {float(cells.get(idx, 0))}")
            require(F(h.errors2[idx]) == cells2.get(idx, 0), "errors2",
                    lambda: f"after {step}: cell {idx}: {h.errors2[idx]!r} want {float(cells2.get(idx, 0))}")
        require(F(h.missed) == missed, "missed", f"after {step}: missed {h.missed} want {float(missed)}")

    for k, op in enumerate(case["ops"]):
        kind = op[0]
        if kind == "fill":
            row, w = [float(x) for x in op[1]], op[2]
            if any(math.isnan(x) for x in row):
                ctx.label("scalar_nan")
            r = ctx.call(f"fill({row})", h.fill, row) if w is None else ctx.call(f"fill({row},{w})", h.fill, np.array(row), w)
            weighted = weighted or w is not None
            want = enter(row, _w(w))
            if want == "nan":
                want = None
            else:
                all_rows.append(row)
                all_w.append(_w(w))
            require(r == want, "fill_return", f"step {k} fill({row}) returned {r!r}, model {want!r}")
            paths.add("fill")
        elif kind == "fill_n":
            rows = [[float(x) for x in r] for r in op[1]]
            ws = op[2]
            arr = np.array(rows, dtype=float).reshape(len(rows), d)
            kw = {}
            if ws is not None:
                weighted = True
                kw["weights"] = np.array(ws, dtype=np.int64 if all(isinstance(x, int) for x in ws) else np.float64)
            if op[3]:
                ctx.call(f"fill_n(columns)", h.fill_n, arr.T, columns=True, **kw)
                ctx.label("columns")
            else:
                ctx.call(f"fill_n({rows})", h.fill_n, arr, **kw)
            for j, row in enumerate(rows):
                w = 1 if ws is None else ws[j]
                if enter(row, w) != "nan":
                    all_rows.append(row)
                    all_w.append(w)
                else:
                    ctx.label("nan_in_chunk")
            if not rows:
                ctx.label("empty_chunk")
            paths.add("fill_n")
        elif kind == "find":
            row = [float(x) for x in op[1]]
            before = snapshot(h)
            r = ctx.call(f"find_bin({row})", h.find_bin, row)
            want = model.locate_nd(axes_pairs, incl, row)
            require(r == want, "find_bin", f"step {k} find_bin({row}) = {r!r}, model {want!r}")
            if not any(math.isnan(x) for x in row):
                # one coordinate along one axis: the index on that axis, None outside its bins
                for a, x in enumerate(row):
                    i1 = model.locate(axes_pairs[a], x, incl[a])
                    want1 = i1 if isinstance(i1, int) and 0 <= i1 < len(axes_pairs[a]) else None
                    ra = ctx.call(f"find_bin({x!r}, axis={a})", h.find_bin, x, a)
                    rn = ctx.call(f"find_bin({x!r}, axis=name)", h.find_bin, x, h.axis_names[a])
                    require(ra == want1 and rn == want1, "find_bin_axis", f"step {k} find_bin({x!r}, axis={a}) = {ra!r} / {rn!r}, model {want1!r}")
                ctx.refused("find_bin of a scalar without an axis", h.find_bin, row[0])
                ctx.refused("find_bin with a wrongly sized point", h.find_bin, row + [0.0])
            require(snap_equal(before, snapshot(h)), "find_bin_mutates", f"step {k}")
            ctx.label("find")
        compare(f"step {k} {kind}")
    if keep and all_rows:
        b2 = build_nd_binnings(case)
        kw = {}
        if weighted:
            kw["weights"] = np.array(all_w, dtype=np.int64 if all(isinstance(x, int) for x in all_w) else np.float64)
        hb = ctx.call("h(all rows)", physt.h, np.array(all_rows, dtype=float), b2, **kw)
        require(np.array_equal(hb.frequencies, h.frequencies), "batch_frequencies", f"{hb.frequencies.tolist()} vs {h.frequencies.tolist()}")
        require(np.array_equal(hb.errors2, h.errors2), "batch_errors2", "")
        require(F(hb.missed) == F(h.missed), "batch_missed", f"{hb.missed} vs {h.missed}")
    ctx.label("keep" if keep else "nokeep", f"d{d}", f"paths{len(paths)}")
    ctx.nt(len(paths) >= 2 and interesting)


@st.composite
def programs_nd(draw, tier="quick"):
    from pbt.props.c02 import axis

    d = draw(st.sampled_from([2, 2, 3]))
    axes = [draw(axis(5)) for _ in range(d)]
    case = {"axes": axes, "keep_missed": draw(st.sampled_from([True, True, False]))}
    wk = draw(st.sampled_from(["none", "int", "dyadic"]))
    nan_ok = draw(st.booleans())

    inf_ok = draw(st.integers(0, 3)) == 0  # infinite coordinates lie outside every bin (rows with +inf and -inf are no NaN rows)

    def coord(ax):
        ps = ax["pairs"]
        base = st.one_of(st.sampled_from(gen.special_values(ps)), st.floats(ps[0][0], ps[-1][1], allow_nan=False))
        if inf_ok:
            return st.one_of(base, base, base, st.sampled_from([float("inf"), float("-inf")]))
        return base

    row = st.tuples(*[coord(ax) for ax in axes]).map(list)
    nan_row = st.tuples(*[st.one_of(coord(ax), st.just(float("nan"))) for ax in axes]).map(list)
    wgt = {"none": st.none(), "int": st.one_of(st.none(), st.integers(0, 5)), "dyadic": st.one_of(st.none(), gen.dyadics(64, 3))}[wk]

    @st.composite
    def op(draw):
        k = draw(st.sampled_from(["fill", "fill", "fill_n", "fill_n", "find"]))
        if k == "fill":
            r = draw(nan_row) if nan_ok and draw(st.integers(0, 9)) == 0 else draw(row)
            return ["fill", r, draw(wgt)]
        if k == "find":
            return ["find", draw(row)]
        rows = draw(st.lists(nan_row if nan_ok else row, max_size=6))
        if wk == "none" or draw(st.booleans()):
            ws = None
        elif wk == "int":
            ws = draw(st.lists(st.integers(0, 5), min_size=len(rows), max_size=len(rows)))
        else:
            ws = draw(st.lists(gen.dyadics(64, 3), min_size=len(rows), max_size=len(rows)))
        return ["fill_n", rows, ws, draw(st.booleans()) and len(rows) > 0]

    case["ops"] = draw(st.lists(op(), min_size=1, max_size=20 if tier == "thorough" else 10))
    case["start"] = draw(st.sampled_from(["fresh", "fresh", "emptied_copy"]))
    return case


# ---------------------------------------------------------------------------------


def _is_d01(sub, case, v):
    """integer content dtype + value in a gap: NaN marker cannot be stored."""
    return (sub == "fill_1d" and v.kind == "raised:ValueError" and "NaN to integer" in v.detail
            and gen.is_gapped(case["pairs"]))


def _has_scalar_nan(case):
    return any(op[0] == "fill" and (math.isnan(op[1]) if not isinstance(op[1], list) else any(math.isnan(x) for x in op[1]))
               for op in case["ops"])


def _is_d07(sub, case, v):
    """fill(nan) is counted as overflow (1-D) / missed (N-D) instead of being skipped."""
    if not _has_scalar_nan(case):
        return False
    if sub == "fill_1d":
        return v.kind in ("overflow", "fill_return", "batch_missed") or (v.kind == "raised:ValueError" and "NaN" in v.detail)
    return v.kind in ("missed", "batch_missed")


FINDINGS = [
    Finding("D07", _is_d07, "scalar fill(nan) is counted as overflow / missed while fill_n and construction skip NaN"),
]

SUBS = [
    Sub("fill_1d", lambda tier: programs_1d(tier), check_1d, quick=1200, thorough=6000),
    Sub("fill_nd", lambda tier: programs_nd(tier), check_nd, quick=500, thorough=4000),
]

RULE += ' Also: histories that start from copy(include_frequencies=False) of a used histogram; find_bin with an explicit axis (1-D: index / name; N-D: one coordinate along one axis) and its refusals.'
