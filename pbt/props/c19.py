"""C19 — the free-arithmetics switch is scoped, restored and isolated per context.

The harness owns the schedule: every worker (thread or asyncio task) blocks before each of
its steps and the scheduler releases exactly one step at a time, in a generated order.  The
schedule is therefore a plain generated value that shrinks and replays like any other input.
"""
from __future__ import annotations

import asyncio
import os
import subprocess
import sys
import threading

import warnings

import numpy as np
from hypothesis import strategies as st

from pbt.core import Ctx, Finding, HarnessError, Sub, Violation, require

LEVEL = "exploration"
RULE = (
    "Cases: 1-4 workers (worker 0 is the scheduling thread / coroutine itself), each a generated well-bracketed program "
    "over {enter(value), exit, exit-by-exception (unwinding 1..depth levels), set(value), observe, try array operand "
    "(+, *, /), try negative contents}, nesting depth <= 4, plus a generated global schedule (interleaving of step "
    "tokens; task creation points are part of it). Executors: OS threads released step by step through semaphores, and "
    "asyncio tasks released through events. Reference model: one value stack per worker; threads start at the process "
    "default, tasks at their creator's value at creation time. The PHYST_FREE_ARITHMETICS default is enumerated in "
    "subprocesses. Non-trivial: >= 2 workers whose enter/exit intervals overlap in the schedule with different values, "
    "or an exception exit at depth >= 2. distinct = SHA-1 of (programs, schedule, executor)."
)
ASSUMPTIONS = [
    "asyncio tasks inherit a snapshot of their creator's value at creation (contextvars semantics); that is not 'observing another task's set'",
    "generators suspended inside a with-block in the same context are out of domain",
    "a handshake timeout (5 s) is a harness error (exit 2), never a violation",
]

HANDSHAKE = 5.0


class Boom(Exception):
    pass


def _adaptive(values):
    import physt

    return physt.h1(np.array(values), "fixed_width", bin_width=1.0, adaptive=True)


def _h2(missed):
    from physt.histogram_nd import Histogram2D

    return Histogram2D([np.array([0.0, 1.0, 2.0]), np.array([0.0, 1.0])], np.array([[1], [2]]), missed=missed)


def _hist():
    from physt.histogram1d import Histogram1D

    return Histogram1D(np.array([0.0, 1.0, 2.0]), np.array([1, 2]))


class WorkerState:
    """Interprets one worker's program against physt.config, step by step."""

    def __init__(self, wid, program, initial):
        self.wid = wid
        self.program = program
        self.pc = 0
        self.cms = []  # live context managers
        self.saved = []  # model: values to restore
        self.value = initial  # model: current value
        self.log = []
        self.violation = None

    def done(self):
        return self.pc >= len(self.program)

    def step(self):
        from physt.config import config

        op = self.program[self.pc]
        self.pc += 1
        name = op[0]
        try:
            if name == "enter":
                cm = config.enable_free_arithmetics(op[1]) if op[1] is not None else config.enable_free_arithmetics()
                cm.__enter__()
                self.cms.append(cm)
                self.saved.append(self.value)
                self.value = True if op[1] is None else op[1]
            elif name == "exit":
                if self.cms:
                    self.cms.pop().__exit__(None, None, None)
                    self.value = self.saved.pop()
            elif name == "exit_exc":
                n = min(op[1], len(self.cms))
                # the body may be left by any exception, also by the BaseExceptions used for cancellation / interruption
                import asyncio as _asyncio

                cls = {"boom": Boom, "keyboard": KeyboardInterrupt, "cancelled": _asyncio.CancelledError, "exit": SystemExit,
                       "generator_exit": GeneratorExit}[op[2] if len(op) > 2 else "boom"]
                exc = cls("body failed")
                for _ in range(n):
                    cm = self.cms.pop()
                    swallowed = cm.__exit__(cls, exc, None)
                    self._require(not swallowed, "exception_swallowed", "the context manager swallowed the body's exception")
                    self.value = self.saved.pop()
            elif name == "set":
                config.free_arithmetics = op[1]
                self.value = op[1]
            elif name == "observe":
                got = config.free_arithmetics
                self._require(bool(got) == bool(self.value), "observed_wrong_value",
                              f"worker {self.wid} step {self.pc - 1}: config.free_arithmetics = {got!r}, model {self.value!r}")
            elif name == "try_array":
                h = _hist()
                arr = np.ones(2)
                zeros = np.zeros(2)
                fn = {"add": lambda: h + arr, "mul": lambda: h * arr, "div": lambda: h / arr, "iadd": lambda: h.__iadd__(arr), "list": lambda: h + [1, 1],
                      # reflected forms and operands that look like a neutral element
                      "radd": lambda: arr + h, "rmul": lambda: arr * h, "radd_list": lambda: [1, 1] + h, "radd_zeros": lambda: zeros + h,
                      "radd_zero_list": lambda: [0, 0] + h, "radd_zero_tuple": lambda: (0.0, 0.0) + h, "add_zeros": lambda: h + zeros,
                      "mul_ones_list": lambda: h * [1, 1], "imul": lambda: h.__imul__(arr), "idiv": lambda: h.__itruediv__(arr),
                      "sub": lambda: h - zeros, "isub": lambda: h.__isub__(zeros)}[op[1]]
                try:
                    r = fn()
                    ok = True
                except TypeError:
                    ok = False
                if ok and op[1] in ("add", "radd", "list", "radd_list", "mul", "rmul", "div", "mul_ones_list", "add_zeros", "radd_zeros", "sub"):
                    # an accepted array operand acts element by element on the contents
                    want = {"add": [2, 3], "radd": [2, 3], "list": [2, 3], "radd_list": [2, 3], "mul": [1, 2], "rmul": [1, 2], "div": [1, 2],
                            "mul_ones_list": [1, 2], "add_zeros": [1, 2], "radd_zeros": [1, 2], "sub": [1, 2]}[op[1]]
                    got = [float(x) for x in np.asarray(r.frequencies)]
                    self._require(got == [float(x) for x in want], "array_arithmetic_value", f"worker {self.wid} step {self.pc - 1}: h {op[1]} array gave {got}, expected {want}")
                self._require(ok == bool(self.value), "array_operand_" + ("accepted" if ok else "refused"),
                              f"worker {self.wid} step {self.pc - 1}: h {op[1]} array {'accepted' if ok else 'refused'} while free arithmetics is {self.value!r}")
            elif name == "try_negative":
                from physt.histogram1d import Histogram1D

                def _nan_hist():
                    return Histogram1D(np.array([0.0, 1.0, 2.0, 3.0]), np.array([np.nan, 2.0, 1.0]))

                fn = {"construct": lambda: Histogram1D(np.array([0.0, 1.0, 2.0]), np.array([-1, 2])), "scale": lambda: _hist() * -1,
                      "setter": lambda: setattr(_hist(), "frequencies", np.array([-1, 1])),
                      # an unknown (NaN) bin next to the negative one does not hide it
                      "construct_nan": lambda: Histogram1D(np.array([0.0, 1.0, 2.0, 3.0]), np.array([np.nan, -3.0, 1.0])),
                      "scale_nan": lambda: _nan_hist() * -1, "setter_nan": lambda: setattr(_nan_hist(), "frequencies", np.array([1.0, np.nan, -1.0])),
                      "divide": lambda: _hist() / -2,
                      # differences that fall below zero: same bins, in place, and adaptive operands over different ranges
                      "subtract": lambda: _hist() - Histogram1D(np.array([0.0, 1.0, 2.0]), np.array([2, 2])),
                      "isub": lambda: _hist().__isub__(Histogram1D(np.array([0.0, 1.0, 2.0]), np.array([0, 3]))),
                      # ... and what lies outside the bins is content as well
                      "subtract_underflow": lambda: Histogram1D(np.array([0.0, 1.0, 2.0]), np.array([4, 3]), underflow=1) - Histogram1D(np.array([0.0, 1.0, 2.0]), np.array([1, 1]), underflow=3),
                      "subtract_missed_2d": lambda: _h2(0) - _h2(5),
                      "subtract_adaptive": lambda: _adaptive([0.5, 1.5, 1.6]) - _adaptive([1.5, 3.5, 3.6]),
                      "isub_adaptive": lambda: _adaptive([0.5, 1.5, 1.6]).__isub__(_adaptive([1.5, 3.5, 3.6]))}[op[1]]
                try:
                    with warnings.catch_warnings():
                        warnings.simplefilter("ignore")
                        fn()
                    ok = True
                except ValueError:
                    ok = False
                self._require(ok == bool(self.value), "negative_contents_" + ("accepted" if ok else "refused"),
                              f"worker {self.wid} step {self.pc - 1}: negative contents ({op[1]}) {'accepted' if ok else 'refused'} while free arithmetics is {self.value!r}")
            # after every step the context must show the model's value
            got = config.free_arithmetics
            self._require(bool(got) == bool(self.value), "value_after_step",
                          f"worker {self.wid} after step {self.pc - 1} {op}: config.free_arithmetics = {got!r}, model {self.value!r}")
        except Violation as v:
            if self.violation is None:
                self.violation = v
        except Exception as exc:  # noqa: BLE001 - anything else coming out of physt is a finding too
            if self.violation is None:
                self.violation = Violation("raised:" + type(exc).__name__, f"worker {self.wid} step {self.pc - 1} {op}: {type(exc).__name__}: {exc}")

    def _require(self, cond, kind, detail):
        if not cond:
            raise Violation(kind, detail)

    def finish(self):
        """Unwind what is still open (normal exits), checking restoration."""
        from physt.config import config

        while self.cms:
            self.cms.pop().__exit__(None, None, None)
            self.value = self.saved.pop()
            got = config.free_arithmetics
            if bool(got) != bool(self.value) and self.violation is None:
                self.violation = Violation("not_restored", f"worker {self.wid}: after unwinding, config.free_arithmetics = {got!r}, model {self.value!r}")


def process_default() -> bool:
    return os.environ.get("PHYST_FREE_ARITHMETICS", "0") == "1"


def run_threads(case):
    from physt.config import config

    programs = case["programs"]
    main_initial = bool(config.free_arithmetics)
    states = [WorkerState(0, programs[0], main_initial)] + [WorkerState(i, p, process_default()) for i, p in enumerate(programs[1:], 1)]
    go = [threading.Semaphore(0) for _ in states]
    done = [threading.Semaphore(0) for _ in states]
    stop = threading.Event()

    def loop(i):
        while True:
            if not go[i].acquire(timeout=HANDSHAKE * 4):
                return
            if stop.is_set():
                return
            if states[i].done():
                states[i].finish()
                done[i].release()
                return
            states[i].step()
            done[i].release()

    threads = {}

    def run_step(i):
        if i == 0:
            states[0].step()
            return
        if i not in threads:
            t = threading.Thread(target=loop, args=(i,), daemon=True)
            threads[i] = t
            t.start()
        go[i].release()
        if not done[i].acquire(timeout=HANDSHAKE):
            raise HarnessError("thread handshake timed out")

    try:
        for w in case["schedule"]:
            i = w % len(states)
            if not states[i].done():
                run_step(i)
        progressed = True
        while progressed:
            progressed = False
            for i, s in enumerate(states):
                if not s.done():
                    run_step(i)
                    progressed = True
        # let every thread unwind and terminate
        for i in list(threads):
            go[i].release()
            if not done[i].acquire(timeout=HANDSHAKE):
                raise HarnessError("thread handshake timed out at the end")
        states[0].finish()
    finally:
        stop.set()
        for i in threads:
            go[i].release()
        for t in threads.values():
            t.join(timeout=HANDSHAKE)
    return states, main_initial


def run_asyncio(case):
    from physt.config import config

    programs = case["programs"]
    main_initial = bool(config.free_arithmetics)
    states = [WorkerState(0, programs[0], main_initial)] + [None] * (len(programs) - 1)

    async def main():
        go = {}
        done = {}
        tasks = {}

        async def worker(i):
            while True:
                await asyncio.wait_for(go[i].wait(), HANDSHAKE * 4)
                go[i].clear()
                if states[i].done():
                    states[i].finish()
                    done[i].set()
                    return
                states[i].step()
                done[i].set()

        async def run_step(i):
            if i == 0:
                states[0].step()
                return
            if i not in tasks:
                # the task is created *now*: it inherits the scheduler's current value
                states[i] = WorkerState(i, programs[i], states[0].value)
                go[i], done[i] = asyncio.Event(), asyncio.Event()
                tasks[i] = asyncio.create_task(worker(i))
            go[i].set()
            await asyncio.wait_for(done[i].wait(), HANDSHAKE)
            done[i].clear()

        def finished(i):
            return states[i] is not None and states[i].done()

        for w in case["schedule"]:
            i = w % len(programs)
            if not finished(i):
                await run_step(i)
        progressed = True
        while progressed:
            progressed = False
            for i in range(len(programs)):
                if not finished(i):
                    await run_step(i)
                    progressed = True
        for i, t in tasks.items():
            go[i].set()
            await asyncio.wait_for(done[i].wait(), HANDSHAKE)
            await asyncio.wait_for(t, HANDSHAKE)
        states[0].finish()
        return bool(config.free_arithmetics)

    try:
        inner_after = asyncio.run(main())
    except asyncio.TimeoutError as exc:
        raise HarnessError("asyncio handshake timed out") from exc
    return [s for s in states if s is not None], main_initial, inner_after


def check_schedule(case, ctx: Ctx):
    from physt.config import config

    before = bool(config.free_arithmetics)
    require(before == process_default(), "leaked_from_previous_case", f"config.free_arithmetics = {before!r} at the start of a case")
    executor = case["executor"]
    ctx.label("executor_" + executor, f"workers_{len(case['programs'])}")
    if executor == "threads":
        states, main_initial = run_threads(case)
        inner_after = None
    else:
        states, main_initial, inner_after = run_asyncio(case)
    for s in states:
        if s.violation is not None:
            raise s.violation
    after = bool(config.free_arithmetics)
    if executor == "threads":
        # worker 0 ran in this very context: its model says what must be left behind
        require(after == bool(states[0].value), "scheduler_value_changed", f"scheduler context reads {after!r}, model {states[0].value!r}")
    else:
        # asyncio.run() executes the scheduler coroutine in a copy of this context: inside, worker 0's model
        # holds; outside nothing may have changed
        require(inner_after == bool(states[0].value), "scheduler_value_changed", f"scheduler coroutine reads {inner_after!r}, model {states[0].value!r}")
        require(after == before, "leaked_out_of_event_loop", f"context outside asyncio.run reads {after!r}, was {before!r}")
    config.free_arithmetics = process_default()  # restore for the next case
    # non-triviality: overlapping enter/exit intervals with different values, or exception exit at depth >= 2
    deep_exc = any(op[0] == "exit_exc" and op[1] >= 2 for p in case["programs"] for op in p)
    values = set()
    for p in case["programs"]:
        for op in p:
            if op[0] in ("enter", "set"):
                values.add((True if op[1] is None else op[1]))
    multi = len(case["programs"]) >= 2 and len(values) >= 2 and len(set(w % len(case["programs"]) for w in case["schedule"])) >= 2
    ctx.nt(multi or deep_exc)
    if deep_exc:
        ctx.label("exception_exit_depth2")
    if multi:
        ctx.label("interleaved_different_values")


ARRAY_FORMS = ["add", "mul", "div", "iadd", "list", "radd", "rmul", "radd_list", "radd_zeros", "radd_zero_list", "radd_zero_tuple", "add_zeros",
               "mul_ones_list", "imul", "idiv", "sub", "isub"]


@st.composite
def program(draw, max_len):
    out = []
    depth = 0
    n = draw(st.integers(1, max_len))
    for _ in range(n):
        choices = ["enter", "enter", "set", "observe", "observe", "try_array", "try_negative"]
        if depth:
            choices += ["exit", "exit", "exit_exc"]
        if depth >= 4:
            choices = [c for c in choices if c != "enter"]
        c = draw(st.sampled_from(choices))
        if c == "enter":
            out.append(["enter", draw(st.sampled_from([True, True, False, None]))])
            depth += 1
        elif c == "exit":
            out.append(["exit"])
            depth -= 1
        elif c == "exit_exc":
            k = draw(st.integers(1, depth))
            out.append(["exit_exc", k, draw(st.sampled_from(["boom", "boom", "keyboard", "cancelled", "exit", "generator_exit"]))])
            depth -= k
        elif c == "set":
            out.append(["set", draw(st.booleans())])
        elif c == "observe":
            out.append(["observe"])
        elif c == "try_array":
            out.append(["try_array", draw(st.sampled_from(ARRAY_FORMS))])
        else:
            out.append(["try_negative", draw(st.sampled_from(["construct", "scale", "setter", "construct_nan", "scale_nan", "setter_nan", "divide", "subtract", "isub", "subtract_adaptive", "isub_adaptive", "subtract_underflow", "subtract_missed_2d"]))])
    return out


@st.composite
def schedules(draw, tier="quick"):
    k = draw(st.integers(1, 4))
    programs = [draw(program(12)) for _ in range(k)]
    total = sum(len(p) for p in programs)
    schedule = draw(st.lists(st.integers(0, k - 1), max_size=total + 4))
    return {"executor": draw(st.sampled_from(["threads", "asyncio"])), "programs": programs, "schedule": schedule}


# ---------------------------------------------------------------------------------
# environment default (exhaustive over the listed settings, in subprocesses)

ENV_VALUES = [None, "0", "1", "", "true", "True", "yes"]

_SCRIPT = r"""
import numpy as np, warnings
warnings.simplefilter("ignore")
from physt.config import config
from physt.histogram1d import Histogram1D
h = Histogram1D(np.array([0.0, 1.0, 2.0]), np.array([1, 2]))
try:
    h + np.ones(2); a = True
except TypeError:
    a = False
try:
    Histogram1D(np.array([0.0, 1.0, 2.0]), np.array([-1, 2])); n = True
except ValueError:
    n = False
import threading
seen = []
t = threading.Thread(target=lambda: seen.append(config.free_arithmetics)); t.start(); t.join()
print(config.free_arithmetics, a, n, seen[0])
"""


_PROGRAM_SCRIPT = _SCRIPT + r"""
import json, sys
from pbt.props.c19 import WorkerState, process_default
case = json.loads(sys.argv[1])
out = []
def run():
    w = WorkerState(0, case["program"], process_default())
    while not w.done():
        w.step()
    w.finish()
    out.append(w.violation)
if case["in_thread"]:
    t = threading.Thread(target=run); t.start(); t.join()
else:
    run()
v = out[0]
print("PROGRAM", json.dumps(None if v is None else [v.kind, v.detail]))
"""


def check_env(case, ctx: Ctx):
    val = ENV_VALUES[case["i"] % len(ENV_VALUES)]
    env = dict(os.environ)
    env.pop("PHYST_FREE_ARITHMETICS", None)
    if val is not None:
        env["PHYST_FREE_ARITHMETICS"] = val
    import json

    r = subprocess.run([sys.executable, "-c", _PROGRAM_SCRIPT, json.dumps({"program": case.get("program") or [], "in_thread": bool(case.get("in_thread"))})],
                       capture_output=True, text=True, env=env, timeout=120)
    if r.returncode != 0:
        raise Violation("env_default_crash", f"PHYST_FREE_ARITHMETICS={val!r}: {r.stderr[-300:]}")
    got = r.stdout.splitlines()[0].split()
    want = val == "1"
    ctx.label(f"env_{val!r}")
    ctx.nt()
    require(got == [str(want)] * 4, "env_default", f"PHYST_FREE_ARITHMETICS={val!r}: (value, array accepted, negative accepted, thread value) = {got}, expected all {want}")
    if case.get("program"):
        # the same interpreter + model as the schedule sub-check, started from the process default:
        # leaving the outermost context must bring back the *environment's* value
        line = [ln for ln in r.stdout.splitlines() if ln.startswith("PROGRAM ")]
        if r.returncode != 0 or not line:
            raise HarnessError(f"env program runner failed: {r.stderr[-400:]}")
        v = json.loads(line[0][len("PROGRAM "):])
        ctx.label("program_in_thread" if case["in_thread"] else "program_main_thread")
        if v is not None:
            raise Violation("env_" + v[0], f"PHYST_FREE_ARITHMETICS={val!r}: {v[1]}")


@st.composite
def env_cases(draw, tier="quick"):
    return {"i": draw(st.integers(0, len(ENV_VALUES) - 1)), "program": draw(program(8)), "in_thread": draw(st.booleans())}


FINDINGS = []

SUBS = [
    Sub("schedule", lambda tier: schedules(tier), check_schedule, quick=2400, thorough=20000),
    Sub("env_default", lambda tier: env_cases(tier), check_env, quick=40, thorough=40),
]

RULE += ' Also: reflected and neutral-looking array operands (zeros on the left of +, ones lists, -, in-place forms), NaN bins next to negative ones, bodies left by BaseExceptions; the environment sub-check runs a generated program from the process default in the main or a fresh thread.'
RULE += ' try_negative also: differences below zero (h - larger, h -= larger, adaptive operands over different ranges).'
