"""C16 — densities, bin geometry and cumulative values are consistent."""
from __future__ import annotations

import itertools
import math
from fractions import Fraction

import numpy as np
from hypothesis import strategies as st

from pbt import gen, hgen, model
from pbt.core import Ctx, Finding, Sub, Violation, require
from pbt.model import F
from pbt.snap import snapshot, snap_equal, snap_diff

LEVEL = "exploration"
RULE = (
    "Cases: histograms of every class (1-D, 2-D, N-D up to 4 axes, radial, azimuthal, polar, spherical, spherical "
    "surface, cylindrical, cylindrical surface) with irregular bins (radial edges from 0 or above, partial and full "
    "angular ranges, gapped axes for the Cartesian classes) and arbitrary contents. Oracles: closed-form bin measures "
    "evaluated per cell with math.*, densities*bin_sizes == frequencies, additivity under merge_bins, region totals "
    "(pi R^2, 4 pi, 4/3 pi R^3, pi R^2 H, 2 pi H), edge/centre/width accessors (per axis and mesh forms), numpy_like, "
    "cumulative_frequencies, errors. Non-trivial: >= 3 bins of pairwise different widths on some axis and a "
    "non-Cartesian class or >= 3 axes. distinct = SHA-1 of the case."
)
ASSUMPTIONS = ["closed forms are compared with rtol 1e-11 (cos differences and r^2 differences of generated, well separated edges)"]

TWO_PI = 2 * math.pi
RT = 1e-11


def close(a, b, rt=RT):
    return abs(a - b) <= rt * max(abs(a), abs(b)) + 1e-300


def measure(cls, cell):
    """True measure of one cell given as per-axis (left, right) pairs."""
    w = [r - l for l, r in cell]
    if cls in ("Histogram1D", "AzimuthalHistogram"):
        return w[0]
    if cls in ("Histogram2D", "HistogramND", "CylindricalSurfaceHistogram"):
        return math.prod(w)
    if cls == "RadialHistogram":
        return math.pi * (cell[0][1] ** 2 - cell[0][0] ** 2)
    if cls == "PolarHistogram":
        return (cell[0][1] ** 2 - cell[0][0] ** 2) / 2 * w[1]
    if cls == "SphericalSurfaceHistogram":
        return (math.cos(cell[0][0]) - math.cos(cell[0][1])) * w[1]
    if cls == "SphericalHistogram":
        return (cell[0][1] ** 3 - cell[0][0] ** 3) / 3 * (math.cos(cell[1][0]) - math.cos(cell[1][1])) * w[2]
    if cls == "CylindricalHistogram":
        return (cell[0][1] ** 2 - cell[0][0] ** 2) / 2 * w[1] * w[2]
    raise AssertionError(cls)


def check_geometry(case, ctx: Ctx):
    spec = case["spec"]
    h = ctx.call("build", hgen.build, spec)
    before = snapshot(h)
    cls = type(h).__name__
    d = h.ndim
    ctx.label("class_" + cls)
    pairs = [model.pairs_of(b["bins"]) for b in before["binnings"]]
    shape = tuple(len(p) for p in pairs)
    sizes = np.asarray(ctx.call("bin_sizes", lambda: h.bin_sizes), dtype=float)
    require(tuple(sizes.shape) == shape, "bin_sizes_shape", f"{sizes.shape} vs {shape}")
    freq = np.asarray(h.frequencies, dtype=float)
    dens = np.asarray(ctx.call("densities", lambda: h.densities), dtype=float)
    total_measure = 0.0
    for idx in itertools.product(*[range(s) for s in shape]):
        cell = [pairs[a][idx[a]] for a in range(d)]
        want = measure(cls, cell)
        gi = idx if d > 1 else idx[0]
        require(close(float(sizes[gi]), want), "bin_size", f"{cls} cell {idx} {cell}: {sizes[gi]!r} want {want!r}")
        require(sizes[gi] > 0 or want == 0.0, "non_positive_measure", f"{cls} cell {idx}: {sizes[gi]!r}")  # (want == 0: product underflow)
        require(close(float(dens[gi]) * float(sizes[gi]), float(freq[gi]), 8 * 2.0 ** -52) or (freq[gi] == 0 and dens[gi] == 0), "density",
                f"cell {idx}: density {dens[gi]!r} * size {sizes[gi]!r} != frequency {freq[gi]!r}")
        total_measure += want
    # totals
    if d == 1:
        tw = ctx.call("total_width", lambda: h.total_width)
        require(close(float(tw), sum(r - l for l, r in pairs[0])), "total_width", f"{tw!r}")
    else:
        ts = ctx.call("total_size", lambda: h.total_size)
        require(close(float(ts), total_measure, 1e-10), "total_size", f"{ts!r} want {total_measure!r}")
    full = case.get("full")
    if full:
        consecutive = all(not model.gaps(p) for p in pairs)
        if consecutive:
            R = pairs[0][-1][1] if cls in ("RadialHistogram", "PolarHistogram", "SphericalHistogram", "CylindricalHistogram") else None
            want = None
            if cls == "PolarHistogram":
                want = math.pi * R * R
            elif cls == "RadialHistogram":
                want = math.pi * R * R
            elif cls == "SphericalSurfaceHistogram":
                want = 4 * math.pi
            elif cls == "SphericalHistogram":
                want = 4 / 3 * math.pi * R ** 3
            elif cls == "CylindricalHistogram":
                want = math.pi * R * R * (pairs[2][-1][1] - pairs[2][0][0])
            elif cls == "CylindricalSurfaceHistogram":
                want = TWO_PI * (pairs[1][-1][1] - pairs[1][0][0])
            if want is not None:
                got = float(np.sum(sizes))
                require(close(got, want, 1e-10), "region_measure", f"{cls}: sum of bin measures {got!r}, region {want!r}")
                ctx.label("full_region")
    # edges, centres, widths
    if d == 1:
        L, Rr = np.asarray(h.bin_left_edges, dtype=float), np.asarray(h.bin_right_edges, dtype=float)
        require(L.tolist() == [p[0] for p in pairs[0]] and Rr.tolist() == [p[1] for p in pairs[0]], "left_right_edges", "")
        C, W = np.asarray(h.bin_centers, dtype=float), np.asarray(h.bin_widths, dtype=float)
        for i, (l, r) in enumerate(pairs[0]):
            require(close(float(C[i]), (l + r) / 2, 4 * 2.0 ** -52) or C[i] == (l + r) / 2, "bin_centers", f"bin {i}: {C[i]!r}")
            require(float(W[i]) == r - l, "bin_widths", f"bin {i}: {W[i]!r} vs {r - l!r}")
        require(float(h.min_edge) == pairs[0][0][0] and float(h.max_edge) == pairs[0][-1][1], "min_max_edge", "")
        cum = np.asarray(h.cumulative_frequencies)
        run = Fraction(0)
        for i in range(shape[0]):
            run += F(h.frequencies[i])
            require(F(cum[i]) == run, "cumulative", f"bin {i}: {cum[i]!r} want {float(run)}")
        if shape[0]:
            require(F(cum[-1]) == F(h.total), "cumulative_end", f"{cum[-1]!r} vs {h.total!r}")
            require(F(h.total) == run, "total", f"{h.total!r} vs {float(run)}")
        if not model.gaps(pairs[0]):
            f2, e2 = h.numpy_like
            require(np.array_equal(np.asarray(f2), np.asarray(h.frequencies)) and [float(x) for x in e2] == [pairs[0][0][0]] + [p[1] for p in pairs[0]], "numpy_like", "")
            require([float(x) for x in h.edges] == [pairs[0][0][0]] + [p[1] for p in pairs[0]], "edges", "")
    else:
        for a in range(d):
            by = a if case["by"] == "index" else h.axis_names[a]
            L = np.asarray(h.get_bin_left_edges(by), dtype=float).tolist()
            Rr = np.asarray(h.get_bin_right_edges(by), dtype=float).tolist()
            C = np.asarray(h.get_bin_centers(by), dtype=float).tolist()
            W = np.asarray(h.get_bin_widths(by), dtype=float).tolist()
            require(L == [p[0] for p in pairs[a]] and Rr == [p[1] for p in pairs[a]], "left_right_edges", f"axis {a}")
            for i, (l, r) in enumerate(pairs[a]):
                require(C[i] == (r + l) / 2, "bin_centers", f"axis {a} bin {i}: {C[i]!r}")
                require(W[i] == r - l, "bin_widths", f"axis {a} bin {i}: {W[i]!r}")
            if all(not model.gaps(p) for p in pairs):  # (edges of histograms with a gapped axis are documented to raise)
                E = [float(x) for x in h.get_bin_edges(by)]
                require(E == [pairs[a][0][0]] + [p[1] for p in pairs[a]], "edges", f"axis {a}")
        # mesh forms: indexing="ij", one array per axis, shaped like the contents
        for nm, per_axis in (("get_bin_centers", lambda a: [(l + r) / 2 for l, r in pairs[a]]), ("get_bin_widths", lambda a: [r - l for l, r in pairs[a]]),
                             ("get_bin_left_edges", lambda a: [l for l, r in pairs[a]]), ("get_bin_right_edges", lambda a: [r for l, r in pairs[a]])):
            mesh = ctx.call(nm + "()", getattr(h, nm))
            require(len(mesh) == d, "mesh_length", nm)
            for a in range(d):
                M = np.asarray(mesh[a], dtype=float)
                require(tuple(M.shape) == shape, "mesh_shape", f"{nm} axis {a}: {M.shape} vs {shape}")
                vals = per_axis(a)
                for idx in itertools.product(*[range(s) for s in shape]):
                    require(float(M[idx]) == vals[idx[a]], "mesh_value", f"{nm} axis {a} cell {idx}: {M[idx]!r} vs {vals[idx[a]]!r}")
        if all(not model.gaps(p) for p in pairs):
            # the mesh of edges: one array per axis, one more point than bins along every axis
            emesh = ctx.call("get_bin_edges()", h.get_bin_edges)
            require(len(emesh) == d, "mesh_length", "get_bin_edges")
            eshape = tuple(s_ + 1 for s_ in shape)
            for a in range(d):
                M = np.asarray(emesh[a], dtype=float)
                require(tuple(M.shape) == eshape, "mesh_shape", f"get_bin_edges axis {a}: {M.shape} vs {eshape}")
                ev = [pairs[a][0][0]] + [p[1] for p in pairs[a]]
                for idx in itertools.product(*[range(s_) for s_ in eshape]):
                    require(float(M[idx]) == ev[idx[a]], "mesh_value", f"get_bin_edges axis {a} point {idx}: {M[idx]!r} vs {ev[idx[a]]!r}")
            import warnings

            with warnings.catch_warnings():
                warnings.simplefilter("ignore")
                nl = h.numpy_like
            require(np.array_equal(np.asarray(nl[0]), np.asarray(h.frequencies)), "numpy_like", "")
            rest = nl[1] if len(nl) == 2 and cls != "Histogram2D" else list(nl[1:])
            for a in range(d):
                require([float(x) for x in rest[a]] == [pairs[a][0][0]] + [p[1] for p in pairs[a]], "numpy_like_edges", f"axis {a}")
    if cls == "CylindricalHistogram":
        surf = ctx.call("projection(phi, z)", h.projection, 1, 2)
        ss = np.asarray(surf.bin_sizes, dtype=float)
        for idx in itertools.product(range(shape[1]), range(shape[2])):
            want = (pairs[1][idx[0]][1] - pairs[1][idx[0]][0]) * (pairs[2][idx[1]][1] - pairs[2][idx[1]][0])
            require(close(float(ss[idx]), want), "projected_surface_measure", f"cell {idx}: {ss[idx]!r} want {want!r} (radius {surf.radius!r})")
        ctx.label("cylinder_surface_projection")
    if d == 1 and shape[0] >= 3 and case.get("select"):
        # a selection (index array / mask) of an already inspected histogram reports its own geometry
        keep = sorted(set(i % shape[0] for i in case["select"]))
        if 0 < len(keep) < shape[0]:
            sel = ctx.call("h[index array]", lambda: h[np.array(keep)]) if case.get("select_mask") is None else ctx.call("h[mask]", lambda: h[np.array([i in keep for i in range(shape[0])])])
            sp = [pairs[0][i] for i in keep]
            require(model.pairs_of(sel.bins) == sp, "selection_bins", f"{model.pairs_of(sel.bins)} vs {sp}")
            wsum = sum(r - l for l, r in sp)
            require(close(float(sel.total_width), wsum, 1e-12), "selection_total_width", f"{sel.total_width!r} vs {wsum!r} (bins {sp})")
            ssz = np.asarray(sel.bin_sizes, dtype=float)
            for i, cellp in enumerate(sp):
                require(close(float(ssz[i]), measure(cls, [cellp])), "selection_bin_size", f"bin {i}")
            ctx.label("selection")
    errs = np.asarray(h.errors)
    for got, e2v in zip(errs.ravel().tolist(), np.asarray(h.errors2).ravel().tolist()):
        require(abs(got - math.sqrt(float(e2v))) <= 2.0 ** -20 * max(1.0, got), "errors_sqrt", f"{got!r} vs sqrt({e2v!r})")
    # additivity under merging
    ax = case["merge_axis"] % d
    amount = case["merge_amount"]
    if shape[ax] >= 2:
        if model.gaps(pairs[ax]):
            # with gaps a merge is possible as long as no run spans one; the merged bins must not swallow the gaps
            ok, mrg = ctx.maybe(h.merge_bins, amount, axis=ax)
            if not ok:
                mrg = None
            else:
                ctx.label("merged_gapped_axis")
        else:
            mrg = ctx.call("merge_bins", h.merge_bins, amount, axis=ax)
    else:
        mrg = None
    if mrg is not None:
        require(type(mrg) is type(h), "merge_class", type(mrg).__name__)
        ms = np.asarray(mrg.bin_sizes, dtype=float)
        for idx in itertools.product(*[range(s) for s in ms.shape]):
            tot = 0.0
            for j in range(idx[ax] * amount, min((idx[ax] + 1) * amount, shape[ax])):
                o = list(idx)
                o[ax] = j
                tot += float(sizes[tuple(o) if d > 1 else o[0]])
            gi = idx if d > 1 else idx[0]
            require(close(float(ms[gi]), tot, 1e-10), "measure_not_additive", f"{cls} merged cell {idx}: {ms[gi]!r} vs sum {tot!r}")
        ctx.label("merged")
    require(snap_equal(before, snapshot(h)), "source_modified", lambda: snap_diff(before, snapshot(h)))
    irregular = any(len({round(r - l, 9) for l, r in p}) >= 3 for p in pairs)
    ctx.nt(irregular and (cls not in ("Histogram1D", "Histogram2D", "HistogramND") or d >= 3))


def rising(draw, lo, hi, n, full):
    """n+1 well separated edges in [lo, hi]; spans [lo, hi] exactly when full."""
    cuts = sorted(draw(st.lists(st.integers(1, 99), min_size=n - 1, max_size=n - 1, unique=True))) if n > 1 else []
    pts = [lo] + [lo + (hi - lo) * c / 100 for c in cuts] + [hi]
    if not full and n >= 1 and draw(st.booleans()):
        pts = pts[:-1] + [lo + (hi - lo) * (99.5 / 100)] if len(pts) > 2 else pts
    return [[a, b] for a, b in zip(pts[:-1], pts[1:])]


@st.composite
def geometry_cases(draw, tier="quick"):
    cls = draw(st.sampled_from(["Histogram1D", "Histogram2D", "HistogramND3", "HistogramND4", "RadialHistogram", "AzimuthalHistogram", "PolarHistogram",
                                "SphericalSurfaceHistogram", "SphericalHistogram", "CylindricalHistogram", "CylindricalSurfaceHistogram"]))
    full = draw(st.booleans())
    dtype = draw(st.sampled_from(["int64", "float64", "int32", "float32"]))

    def radial_axis():
        n = draw(st.integers(1, 6))
        if not full and draw(st.integers(0, 5)) == 0:
            # radii stored in single precision (r2**2 - r1**2 cancels: the measure must come from the numbers)
            e_ = [float(np.float32(x)) for x in (1000.0, 1000.01, 1000.03, 1000.5, 1002.0)][: draw(st.integers(2, 5))]
            return {"form": draw(st.sampled_from(["static", "numpy"])), "pairs": [[a, b] for a, b in zip(e_[:-1], e_[1:])], "incl": True, "edge_dtype": "float32"}
        r0 = 0.0 if full else draw(st.sampled_from([0.0, 0.5, 3.0]))
        R = r0 + draw(st.sampled_from([1.0, 2.5, 10.0, 100.0]))
        return {"form": draw(st.sampled_from(["static", "numpy"])), "pairs": rising(draw, r0, R, n, True), "incl": True}

    def angle_axis(top):
        n = draw(st.integers(1, 6))
        if full:
            lo, hi = 0.0, top
        else:
            lo = draw(st.sampled_from([0.0, 0.3, 1.0]))
            hi = draw(st.sampled_from([top, top * 0.75, lo + 1.5 if lo + 1.5 < top else top]))
        return {"form": draw(st.sampled_from(["static", "numpy"])), "pairs": rising(draw, lo, hi, n, True), "incl": True}

    def z_axis():
        n = draw(st.integers(1, 5))
        lo = draw(st.sampled_from([-5.0, 0.0, 2.0]))
        return {"form": draw(st.sampled_from(["static", "numpy"])), "pairs": rising(draw, lo, lo + draw(st.sampled_from([1.0, 4.0, 20.0])), n, True), "incl": True}

    if cls in ("Histogram1D", "Histogram2D", "HistogramND3", "HistogramND4"):
        d = {"Histogram1D": 1, "Histogram2D": 2, "HistogramND3": 3, "HistogramND4": 4}[cls]
        axes = [draw(hgen.axis(1, 6 if d < 4 else 3, gapped=None)) for _ in range(d)]
        if draw(st.integers(0, 4)) == 0:
            # irregular bins on a very small scale (nanoseconds): width differences far below any absolute tolerance
            k_ = draw(st.integers(0, d - 1))
            n_ = draw(st.integers(2, 6))
            e_ = [0.0]
            for _ in range(n_):
                e_.append(e_[-1] + draw(st.sampled_from([1.0, 2.0, 3.0, 0.5, 4.0])))
            sc_ = draw(st.sampled_from([1e-9, 1e-12, 2.0 ** -30]))
            axes[k_] = {"form": draw(st.sampled_from(["static", "numpy", "edges"])), "pairs": [[a * sc_, b * sc_] for a, b in zip(e_[:-1], e_[1:])], "incl": True}
        if draw(st.integers(0, 5)) == 0:
            # edges handed over as an int32 / float32 array: geometry is that of the numbers, not of the storage type
            k_ = draw(st.integers(0, d - 1))
            if draw(st.booleans()):
                e_ = sorted(draw(st.lists(st.sampled_from([-2_000_000_000, -5, 0, 7, 1_000_000, 2_000_000_000, 2_100_000_000, 2_140_000_000]), min_size=2, max_size=5, unique=True)))
                axes[k_] = {"form": draw(st.sampled_from(["static", "numpy", "edges"])), "pairs": [[float(a), float(b)] for a, b in zip(e_[:-1], e_[1:])], "incl": True, "edge_dtype": "int32"}
            else:
                e_ = [float(np.float32(x)) for x in (1000.0, 1000.01, 1000.03, 1000.5, 1002.0)][: draw(st.integers(2, 5))]
                axes[k_] = {"form": draw(st.sampled_from(["static", "numpy", "edges"])), "pairs": [[a, b] for a, b in zip(e_[:-1], e_[1:])], "incl": True, "edge_dtype": "float32"}
        for i, ax in enumerate(axes):  # denormal-scale widths only exercise product underflow: out of domain
            if min(r - l for l, r in ax["pairs"]) < 1e-60:
                axes[i] = {"form": "static", "pairs": [[0.0, 1.0], [1.0, 3.0], [3.0, 3.5]], "incl": True}
        name = {"Histogram1D": "Histogram1D", "Histogram2D": "Histogram2D"}.get(cls, "HistogramND")
    else:
        name = cls
        axes = {"RadialHistogram": lambda: [radial_axis()], "AzimuthalHistogram": lambda: [angle_axis(TWO_PI)],
                "PolarHistogram": lambda: [radial_axis(), angle_axis(TWO_PI)], "SphericalSurfaceHistogram": lambda: [angle_axis(math.pi), angle_axis(TWO_PI)],
                "SphericalHistogram": lambda: [radial_axis(), angle_axis(math.pi), angle_axis(TWO_PI)],
                "CylindricalHistogram": lambda: [radial_axis(), angle_axis(TWO_PI), z_axis()],
                "CylindricalSurfaceHistogram": lambda: [angle_axis(TWO_PI), z_axis()]}[cls]()
    shape = [len(a["pairs"]) for a in axes]
    if len(axes) == 1 and draw(st.integers(0, 3)) == 0:
        # a narrow integer type whose bins each fit while the running sum leaves its range
        dtype = draw(st.sampled_from(["int16", "int16", "int32"]))
        big = st.sampled_from([12000, 15000, 9000, 20000, 7, 0, 30000]) if dtype == "int16" else st.sampled_from([2 ** 30, 2 ** 30 + 5, 7, 0, 2 ** 31 - 1])
        freq = hgen.nested(draw, shape, big)
        err2 = None
        d = 1
        spec = {"axes": axes, "dtype": dtype, "freq": freq, "err2": err2, "missed": [0, 0, 0], "keep_missed": True,
                "meta": draw(hgen.meta(d, rich=False)), "adaptive": False, "class": name}
        return {"spec": spec, "full": full, "by": "index", "merge_axis": 0, "merge_amount": 1, "select": [0], "select_mask": None}
    freq = hgen.nested(draw, shape, hgen.content_values(dtype))
    err2 = hgen.nested(draw, shape, hgen.content_values(dtype)) if draw(st.booleans()) else None
    d = len(axes)
    spec = {"axes": axes, "dtype": dtype, "freq": freq, "err2": err2, "missed": [0, 0, 0] if d == 1 else [0], "keep_missed": True,
            "meta": draw(hgen.meta(d, rich=False)), "adaptive": False, "class": name}
    if name in ("SphericalSurfaceHistogram", "CylindricalSurfaceHistogram", "AzimuthalHistogram"):
        # the radius attribute is descriptive: bin measures are in the histogram's own (angular) coordinates
        r = draw(st.sampled_from([None, 1, 2.5, 0.5, 7]))
        if r is not None:
            spec["meta"]["radius"] = r
    merge_axis, merge_amount = draw(st.integers(0, 3)), draw(st.integers(2, 3))
    if name in ("Histogram1D", "Histogram2D", "HistogramND") and draw(st.integers(0, 3)) == 0:
        # an axis whose gaps sit exactly between the runs of a merge: the merge is accepted and must keep the gaps
        k_ = draw(st.integers(0, d - 1))
        n_ = len(axes[k_]["pairs"])
        amt_ = draw(st.integers(2, 3))
        e_, ps_ = draw(st.sampled_from([0.0, -3.0, 10.0])), []
        for i_ in range(n_):
            if i_ and i_ % amt_ == 0:
                e_ += draw(st.sampled_from([0.5, 1.0, 2.0]))  # a gap between two runs
            w_ = draw(st.sampled_from([0.5, 1.0, 1.5, 2.5]))
            ps_.append([e_, e_ + w_])
            e_ += w_
        axes[k_] = {"form": draw(st.sampled_from(["static", "pairs"])), "pairs": ps_, "incl": True}
        spec["axes"] = axes
        merge_axis, merge_amount = k_, amt_
    return {"spec": spec, "full": full, "by": draw(st.sampled_from(["index", "name"])), "merge_axis": merge_axis, "merge_amount": merge_amount,
            "select": draw(st.lists(st.integers(0, 9), min_size=1, max_size=4)), "select_mask": draw(st.sampled_from([None, True]))}


FINDINGS = []

SUBS = [
    Sub("geometry", lambda tier: geometry_cases(tier), check_geometry, quick=1000, thorough=6000),
]

RULE += ' Also: narrow-integer contents whose running sum leaves the type; irregular bins at 1e-9 / 1e-12 scale; merges on gapped axes whose runs do not span a gap.'
