"""C09 — projections are exact marginals."""
from __future__ import annotations

import itertools
import math
from fractions import Fraction

import numpy as np
from hypothesis import strategies as st

from pbt import gen, hgen, model
from pbt.core import Ctx, Finding, Sub, Violation, require
from pbt.model import F
from pbt.snap import snapshot, snap_equal, snap_diff

LEVEL = "exploration"
RULE = (
    "Cases: N-D histograms (d = 2..4, mostly pairwise different extents, dyadic contents, independent errors2, named "
    "axes, any binning kinds) x axis subsets given by index / name / mixed in any order x chains of two projections; "
    "Histogram2D.T; accumulate(axis); histograms built from data compared with the histogram of the kept columns; "
    "refusals (unknown name, out-of-range / negative index, duplicates, empty). Oracle: Fraction sums over the dropped "
    "axes by explicit index loops. Non-trivial: pairwise different extents, errors2 != frequencies and (>= 2 axes "
    "dropped or axes given out of order), or a refusal. distinct = SHA-1 of the case."
)
ASSUMPTIONS = ["contents are ints / dyadic rationals small enough for exact sums in the content dtype"]


def marginal(nested, shape, keep):
    """Sum a nested list over all axes not in keep (explicit loops, Fractions)."""
    out = {}
    for idx in itertools.product(*[range(s) for s in shape]):
        v = nested
        for i in idx:
            v = v[i]
        key = tuple(idx[k] for k in keep)
        out[key] = out.get(key, Fraction(0)) + F(v)
    return out


def resolve_axes(h, axes_spec):
    args = []
    for kind, i in axes_spec:
        # an index may also be a numpy integer (np.argmax(...), elements of an index array)
        args.append(i if kind == "index" else (np.int64(i) if kind == "np_index" else h.axis_names[i]))
    return args


def expect_class(n):
    return {1: "Histogram1D", 2: "Histogram2D"}.get(n, "HistogramND")


def compare_projection(ctx, p, spec, keep, what):
    shape = hgen.shape_of(spec)
    keep_sorted = sorted(keep)
    require(p.ndim == len(keep_sorted), "ndim", f"{what}: {p.ndim}")
    require(type(p).__name__ == expect_class(len(keep_sorted)), "class", f"{what}: {type(p).__name__}")
    bins = [p.bins] if p.ndim == 1 else p.bins
    for j, k in enumerate(keep_sorted):
        want = [[float(a), float(b)] for a, b in spec["axes"][k]["pairs"]] if spec["axes"][k]["form"] not in ("fixed", "exp") else None
        got = np.asarray(bins[j], dtype=float).tolist()
        if want is not None:
            require(got == want, "bins", f"{what}: axis {j} (orig {k}): {got} vs {want}")
        else:
            require(len(got) == shape[k], "bins", f"{what}: axis {j}")
    fm = marginal(spec["freq"], shape, keep_sorted)
    em = marginal(spec["err2"] if spec["err2"] is not None else spec["freq"], shape, keep_sorted)
    pshape = tuple(shape[k] for k in keep_sorted)
    require(tuple(p.frequencies.shape) == pshape, "shape", f"{what}: {p.frequencies.shape} vs {pshape}")
    for idx in itertools.product(*[range(s) for s in pshape]):
        gi = idx if len(idx) > 1 else idx[0]
        require(F(p.frequencies[gi]) == fm[idx], "frequency", lambda: f"{what}: cell {idx}: {p.frequencies[gi]!r} want {float(fm[idx])}")
        require(F(p.errors2[gi]) == em[idx], "errors2", lambda: f"{what}: cell {idx}: {p.errors2[gi]!r} want {float(em[idx])}")
    tot = sum((F(x) for x in hgen.flat(spec["freq"])), Fraction(0))
    require(F(p.total) == tot, "total", f"{what}: {p.total} vs {float(tot)}")
    names = spec["meta"].get("axis_names") or [f"axis{i}" for i in range(len(shape))]
    require(list(p.axis_names) == [names[k] for k in keep_sorted], "axis_names", f"{what}: {p.axis_names} vs {[names[k] for k in keep_sorted]}")


def check_projection(case, ctx: Ctx):
    spec = case["spec"]
    h = ctx.call("build", hgen.build, spec)
    before = snapshot(h)
    d = h.ndim
    keep = [i for _, i in case["axes"]]
    args = resolve_axes(h, case["axes"])
    p = ctx.call(f"projection{tuple(args)}", h.projection, *args)
    compare_projection(ctx, p, spec, keep, f"projection{tuple(args)}")
    require(snap_equal(before, snapshot(h)), "source_modified", lambda: snap_diff(before, snapshot(h)))
    # chain: project the projection once more == project once
    second = case.get("second")
    if second and p.ndim >= 2:
        ks = sorted(keep)
        sub = [ks[i % len(ks)] for i in second]
        sub = sorted(set(sub))
        if 0 < len(sub) < len(ks):
            local = [ks.index(k) for k in sub]
            q = ctx.call("projection of projection", p.projection, *local)
            compare_projection(ctx, q, spec, sub, f"P(P(h,{ks}),{local})")
            direct = ctx.call("direct projection", h.projection, *sub)
            require(snap_equal(snapshot(q, stats=False), snapshot(direct, stats=False)), "chain_differs_from_direct",
                    lambda: snap_diff(snapshot(q, stats=False), snapshot(direct, stats=False)))
            ctx.label("chained")
    shape = hgen.shape_of(spec)
    ctx.label(f"d{d}", f"keep{len(keep)}", "by_" + "_".join(sorted({k for k, _ in case["axes"]})))
    distinct_ext = len(set(shape)) == len(shape)
    ctx.nt(distinct_ext and spec["err2"] is not None and (d - len(keep) >= 2 or keep != sorted(keep)))


@st.composite
def nd_spec(draw, dims=(2, 3, 3, 4)):
    d = draw(st.sampled_from(list(dims)))
    spec = draw(hgen.hist_spec(dims=(d,), dtypes=["int32", "int64", "float32", "float64"], max_bins=6, adaptive=False, rich_meta=False))
    # prefer pairwise different extents: asymmetric shapes make axis mix-ups visible
    if draw(st.integers(0, 4)) == 0:
        # narrow integer contents: every cell fits its type, the marginal sums do not
        dt = draw(st.sampled_from(["int16", "int16", "int32"]))
        big = st.sampled_from([6000, 12000, 30000, 7, 0]) if dt == "int16" else st.sampled_from([2 ** 30, 2 ** 29 + 3, 2 ** 31 - 1, 7, 0])
        spec["dtype"] = dt
        spec["freq"] = hgen.nested(draw, hgen.shape_of(spec), big)
        spec["err2"] = None
    return spec


@st.composite
def projection_cases(draw, tier="quick"):
    spec = draw(nd_spec())
    d = len(spec["axes"])
    k = draw(st.integers(1, d - 1))
    keep = draw(st.permutations(list(range(d))))[:k]
    by = draw(st.sampled_from(["index", "name", "mixed", "np_index"]))
    axes = [[("np_index" if by == "np_index" else ("index" if by == "index" or (by == "mixed" and draw(st.booleans())) else "name")), i] for i in keep]
    return {"spec": spec, "axes": axes, "second": draw(st.one_of(st.none(), st.lists(st.integers(0, 3), min_size=1, max_size=2)))}


# ---------------------------------------------------------------------------------
# T, accumulate, refusals


def check_misc(case, ctx: Ctx):
    spec = case["spec"]
    h = ctx.call("build", hgen.build, spec)
    before = snapshot(h)
    kind = case["kind"]
    ctx.label("kind_" + kind)
    shape = hgen.shape_of(spec)
    d = len(shape)
    if kind == "T":
        t = ctx.call("T", lambda: h.T)
        require(type(t).__name__ == "Histogram2D", "class", type(t).__name__)
        st_, sh = snapshot(t), before
        require([b["bins"] for b in st_["binnings"]] == [b["bins"] for b in reversed(sh["binnings"])], "T_bins", "")
        require(list(t.axis_names) == list(reversed(h.axis_names)), "T_names", f"{t.axis_names}")
        f, e = np.array(sh["frequencies"]), np.array(sh["errors2"])
        require(np.array_equal(np.asarray(t.frequencies), f.T) and np.array_equal(np.asarray(t.errors2), e.T), "T_contents", "")
        require(t.dtype == h.dtype and F(t.missed) == F(h.missed) and t.name == h.name, "T_attributes", "")
        tt = ctx.call("T.T", lambda: t.T)
        require(snap_equal(snapshot(tt), before), "T_T_not_identity", lambda: snap_diff(snapshot(tt), before))
        require(bool(tt == h), "T_T_not_equal", "")
        # T is computed from the histogram's current state every time, and every result is a histogram of its own
        if all(b.bin_count for b in h.binnings):
            mid = [float((b.bins[0][0] + b.bins[0][1]) / 2) for b in h.binnings]
            if case.get("then") == "scale":
                h *= 2
            else:
                ctx.call("fill", h.fill, mid)
                ctx.call("fill_n", h.fill_n, np.array([mid, mid]))
            t2 = ctx.call("T after a change", lambda: h.T)
            require(t2 is not t, "T_returns_same_object", "")
            require(np.array_equal(np.asarray(t2.frequencies), np.asarray(h.frequencies).T) and np.array_equal(np.asarray(t2.errors2), np.asarray(h.errors2).T),
                    "T_stale", f"T after a change: {np.asarray(t2.frequencies).tolist()} vs histogram {np.asarray(h.frequencies).tolist()}")
            require(F(t2.total) == F(h.total) and F(t2.missed) == F(h.missed), "T_stale_total", f"{t2.total} vs {h.total}")
            keep_t = snapshot(t2)
            ctx.call("fill the earlier transpose", t.fill, list(reversed(mid)))
            require(snap_equal(keep_t, snapshot(h.T)), "T_aliases_earlier_result", "a transpose handed out earlier was changed and shows up in a later h.T")
            ctx.label("T_after_change")
            before = snapshot(h)  # (h was changed on purpose above)
        ctx.nt(shape[0] != shape[1] and spec["err2"] is not None)
    elif kind == "accumulate":
        ax = case["axis"] % d
        arg = ax if case["by"] == "index" else (np.intp(ax) if case["by"] == "np_index" else h.axis_names[ax])
        a = ctx.call(f"accumulate({arg!r})", h.accumulate, arg)
        require(type(a) is type(h), "class", type(a).__name__)
        want = {}
        for idx in itertools.product(*[range(s) for s in shape]):
            tot = Fraction(0)
            for j in range(idx[ax] + 1):
                jj = list(idx)
                jj[ax] = j
                v = spec["freq"]
                for i in jj:
                    v = v[i]
                tot += F(v)
            want[idx] = tot
        for idx, w in want.items():
            require(F(a.frequencies[idx]) == w, "accumulate_value", lambda: f"axis {ax} cell {idx}: {a.frequencies[idx]!r} want {float(w)}")
        require(a.dtype == np.asarray(a.frequencies).dtype == np.asarray(a.errors2).dtype, "accumulate_dtype_inconsistent",
                f"dtype {a.dtype}, frequencies {np.asarray(a.frequencies).dtype}, errors2 {np.asarray(a.errors2).dtype}")
        require([b["bins"] for b in snapshot(a)["binnings"]] == [b["bins"] for b in before["binnings"]], "accumulate_bins", "")
        require(list(a.axis_names) == list(h.axis_names), "accumulate_names", "")
        ctx.nt(len(set(shape)) == len(shape))
    else:
        names = list(h.axis_names)
        bad = {"unknown_name": ["no_such_axis"], "out_of_range": [d], "negative": [-1], "duplicate": [0, 0], "empty": [],
               "duplicate_mixed": [0, names[0]], "float_index": [0.5]}[kind]
        ctx.refused(f"projection{tuple(bad)}", h.projection, *bad)
        if kind in ("unknown_name", "out_of_range", "negative"):
            ctx.refused(f"accumulate({bad[0]!r})", h.accumulate, bad[0])
        ctx.nt()
    require(snap_equal(before, snapshot(h)), "source_modified", lambda: snap_diff(before, snapshot(h)))


@st.composite
def misc_cases(draw, tier="quick"):
    kind = draw(st.sampled_from(["T", "T", "accumulate", "accumulate", "unknown_name", "out_of_range", "negative", "duplicate", "empty", "duplicate_mixed", "float_index"]))
    if kind == "T":
        spec = draw(hgen.hist_spec(dims=(2,), dtypes=["int64", "float64", "int32", "float32"], max_bins=6, adaptive=False))
        spec["class"] = None
    else:
        spec = draw(nd_spec(dims=(2, 3, 4)))
    return {"kind": kind, "spec": spec, "axis": draw(st.integers(0, 3)), "by": draw(st.sampled_from(["index", "name", "np_index"])),
            "then": draw(st.sampled_from(["fill", "scale"]))}


# ---------------------------------------------------------------------------------
# from data: projection == histogram of the kept columns


def check_from_data(case, ctx: Ctx):
    import physt

    axes = case["axes"]
    d = len(axes)
    rows = case["rows"]
    arr = np.array(rows, dtype=float).reshape(len(rows), d)
    kw = {}
    if case["weights"] is not None:
        kw["weights"] = np.array(case["weights"], dtype=np.int64 if all(isinstance(x, int) for x in case["weights"]) else np.float64)
    names = [f"c{i}" for i in range(d)]
    h = ctx.call("h", physt.h, arr, [hgen.build_axis(ax) for ax in axes], axis_names=names, **kw)
    keep = sorted(case["keep"])
    p = ctx.call("projection", h.projection, *case["keep"])
    # rows that miss a dropped axis are not in the parent at all
    axes_pairs = [model.pairs_of(b) for b in h.bins]
    incl = [bool(b.includes_right_edge) for b in h.binnings]
    inside = []
    for r, row in enumerate(rows):
        dropped_ok = all(model.locate(axes_pairs[j], row[j], incl[j]) not in (None, -1, len(axes_pairs[j])) for j in range(d) if j not in keep)
        inside.append(dropped_ok)
    if len(keep) == 1 and not incl[keep[0]]:
        # 1-D construction always counts a value on the last edge (C01) while an N-D axis counts it only if
        # its binning declares right-edge inclusion (C02): such rows are outside this comparison
        last = axes_pairs[keep[0]][-1][1]
        if any(row[keep[0]] == last for row in rows):
            ctx.label("last_edge_convention_differs")
            return
    sel = [r for r in range(len(rows)) if inside[r]]
    sub = arr[sel][:, keep] if sel else np.zeros((0, len(keep)))
    kw2 = {}
    if case["weights"] is not None:
        kw2["weights"] = kw["weights"][sel] if sel else kw["weights"][:0]
    if len(keep) == 1:
        direct = ctx.call("h1(kept column)", physt.h1, sub[:, 0], hgen.build_axis(axes[keep[0]]), **kw2)
    else:
        direct = ctx.call("h(kept columns)", physt.h, sub, [hgen.build_axis(axes[k]) for k in keep], **kw2)
    require(np.array_equal(np.asarray(p.frequencies), np.asarray(direct.frequencies)), "differs_from_direct",
            f"{np.asarray(p.frequencies).tolist()} vs {np.asarray(direct.frequencies).tolist()} keep {keep}")
    require(np.array_equal(np.asarray(p.errors2), np.asarray(direct.errors2)), "errors2_differs_from_direct", "")
    require(list(p.axis_names) == [names[k] for k in keep], "axis_names", f"{p.axis_names}")
    require(F(p.total) == F(h.total), "total", f"{p.total} vs {h.total}")
    ctx.label(f"d{d}", "all_inside" if all(inside) else "some_missed_dropped_axis")
    ctx.nt(len(rows) >= 3 and case["keep"] != keep or not all(inside))


@st.composite
def from_data_cases(draw, tier="quick"):
    d = draw(st.sampled_from([2, 3, 3, 4]))
    axes = [draw(hgen.axis(1, 5 if d < 4 else 3, forms=("edges", "static", "numpy", "fixed", "pairs"), gapped=False)) for _ in range(d)]
    n = draw(st.integers(0, 20))
    cols = [draw(gen.values_for(ax["pairs"], n, n)) for ax in axes]
    rows = [[cols[j][i] for j in range(d)] for i in range(n)]
    wk, ws = draw(gen.weights_for(n, kinds=("none", "int", "dyadic")))
    k = draw(st.integers(1, d - 1))
    keep = list(draw(st.permutations(list(range(d))))[:k])
    return {"axes": axes, "rows": rows, "weights": ws, "keep": keep}


FINDINGS = []

SUBS = [
    Sub("projection", lambda tier: projection_cases(tier), check_projection, quick=700, thorough=6000),
    Sub("misc", lambda tier: misc_cases(tier), check_misc, quick=400, thorough=3000),
    Sub("from_data", lambda tier: from_data_cases(tier), check_from_data, quick=400, thorough=3000),
]

RULE += ' Also: narrow integer parents whose marginal sums leave the type; T taken again after a change of the histogram and after a change of an earlier transpose.'
