"""C15 — transformed histograms bin points by their true coordinates."""
from __future__ import annotations

import itertools
import math
from fractions import Fraction

import numpy as np
from hypothesis import strategies as st

from pbt import gen, model
from pbt.core import Ctx, Finding, Sub, Violation, require
from pbt.model import F

LEVEL = "exploration"
RULE = (
    "Cases: finite 2-D / 3-D points (all quadrants / octants, on the axes, the origin, signed zeros, tiny and large "
    "components), singly and as arrays x the six classes (polar, radial 2-D/3-D, azimuthal, spherical, spherical "
    "surface, cylindrical) with explicit bins in transformed coordinates x entry paths (facade with 1/2/3 positional "
    "arrays, transformed=True/False; fill; fill_n; find_bin) x all projections x wrong-dimension inputs. Oracles: "
    "Class.transform against math.hypot / math.atan2 and the inverse formulas; all entry paths against the exact "
    "model over the reported bins; projection type table + exact marginals. Non-trivial: a point on an axis / at the "
    "origin / with a negative zero, or entered through >= 2 paths, or a projection of a 3-D class. distinct = SHA-1."
)
ASSUMPTIONS = [
    "math.hypot / math.atan2 are the reference for the coordinate formulas (rtol 1e-12)",
    "the bin a point belongs to is computed from physt's own transformed coordinates (verified separately against the "
    "reference and bitwise between scalar and array calls), so the verdict does not depend on libm last-bit behaviour",
]

TWO_PI = 2 * math.pi
CLASSES = ["polar", "radial2", "radial3", "azimuthal", "spherical", "spherical_surface", "cylindrical"]


def klass_of(name):
    import physt.special_histograms as sh

    return {"polar": sh.PolarHistogram, "radial2": sh.RadialHistogram, "radial3": sh.RadialHistogram, "azimuthal": sh.AzimuthalHistogram,
            "spherical": sh.SphericalHistogram, "spherical_surface": sh.SphericalSurfaceHistogram, "cylindrical": sh.CylindricalHistogram}[name]


def src_dim(name):
    return 2 if name in ("polar", "radial2", "azimuthal") else 3


def ang_close(a, b, tol=1e-12):
    d = abs(a - b) % TWO_PI
    return min(d, TWO_PI - d) <= tol


def reference(name, p):
    """Transformed coordinates by the textbook formulas."""
    if src_dim(name) == 2:
        x, y = p
        r = math.hypot(x, y)
        phi = math.atan2(y, x) % TWO_PI
        return {"polar": [r, phi], "radial2": [r], "azimuthal": [phi]}[name]
    x, y, z = p
    rho = math.hypot(x, y)
    r = math.hypot(rho, z)
    theta = math.atan2(rho, z)
    phi = math.atan2(y, x) % TWO_PI
    return {"radial3": [r], "spherical": [r, theta, phi], "spherical_surface": [theta, phi], "cylindrical": [rho, phi, z]}[name]


COORD_KIND = {"polar": "ra", "radial2": "r", "radial3": "r", "azimuthal": "a", "spherical": "rta", "spherical_surface": "ta", "cylindrical": "raz"}


def check_transform(case, ctx: Ctx):
    name = case["class"]
    K = klass_of(name)
    pts = [[float(c) for c in p] for p in case["points"]]
    arr = np.array(pts, dtype=float)
    whole = np.asarray(ctx.call("transform(array)", K.transform, arr), dtype=float)
    kinds = COORD_KIND[name]
    require(whole.shape[0] == len(pts), "transform_shape", f"{whole.shape}")
    whole2 = whole.reshape(len(pts), -1)
    for i, p in enumerate(pts):
        single = np.atleast_1d(np.asarray(ctx.call(f"transform({p})", K.transform, p), dtype=float))
        also_list = np.atleast_1d(np.asarray(ctx.call("transform(tuple)", K.transform, tuple(p)), dtype=float))
        require(single.tobytes() == whole2[i].tobytes() == also_list.tobytes(), "scalar_vs_array_transform", f"{p}: {single} vs {whole2[i]}")
        ref = reference(name, p)
        require(len(single) == len(ref), "transform_length", f"{single}")
        mag = math.sqrt(sum(c * c for c in p))
        for kind, got, want in zip(kinds, single, ref):
            got = float(got)
            require(math.isfinite(got), "non_finite", f"{p}: {single}")
            if kind == "r":
                require(got >= 0, "negative_radius", f"{p}: {got}")
                require(abs(got - want) <= 1e-12 * max(want, 1e-300), "radius", f"{p}: {got!r} want {want!r}")
            elif kind == "a":
                require(0 <= got <= TWO_PI, "phi_out_of_range", f"{p}: {got!r}")
                require(ang_close(got, want), "phi", f"{p}: {got!r} want {want!r}")
            elif kind == "t":
                require(0 <= got <= math.pi, "theta_out_of_range", f"{p}: {got!r}")
                require(abs(got - want) <= 1e-12, "theta", f"{p}: {got!r} want {want!r}")
            else:
                require(got == p[2], "z_changed", f"{p}: {got!r}")
        # inverse formulas recover the point
        tol = 1e-12 * (1 + mag)
        vals = dict(zip(kinds, [float(v) for v in single]))
        if name == "polar":
            back = [vals["r"] * math.cos(vals["a"]), vals["r"] * math.sin(vals["a"])]
        elif name == "spherical":
            back = [vals["r"] * math.sin(vals["t"]) * math.cos(vals["a"]), vals["r"] * math.sin(vals["t"]) * math.sin(vals["a"]), vals["r"] * math.cos(vals["t"])]
        elif name == "cylindrical":
            back = [vals["r"] * math.cos(vals["a"]), vals["r"] * math.sin(vals["a"]), vals["z"]]
        else:
            back = None
        if back is not None:
            for b, c in zip(back, p):
                require(abs(b - c) <= tol, "inverse", f"{p}: recovered {back}")
        if any(c == 0 for c in p):
            ctx.label("on_axis")
            ctx.nt()
        if any(c == 0 and math.copysign(1, c) < 0 for c in p):
            ctx.label("negative_zero")
        if all(c == 0 for c in p):
            ctx.label("origin")
    # wrong source dimensionality is refused
    wrong = [1.0] * (5 - src_dim(name)) if name not in ("radial2", "radial3") else [1.0]
    ctx.refused("transform of a wrong-dimension point", K.transform, wrong)
    ctx.refused("transform of a wrong-dimension array", K.transform, np.ones((2, len(wrong))))
    # stacks of point arrays (more than two array dimensions) are not points either, whatever their last axis is
    dsrc = src_dim(name)
    for shp in ((2, 3, dsrc), (1, 1, dsrc), (dsrc, dsrc, dsrc)):
        ctx.refused(f"transform of an array of shape {shp}", K.transform, np.ones(shp))
    ctx.label("class_" + name)


_COMP = st.one_of(st.sampled_from([0.0, -0.0, 1.0, -1.0, 0.5, -2.5, 3.0, 1e-9, -1e-9, 7.25, -7.25, 1e-300, 1e6]), st.floats(-10, 10, allow_nan=False))


@st.composite
def transform_cases(draw, tier="quick"):
    name = draw(st.sampled_from(CLASSES))
    d = src_dim(name)
    pts = draw(st.lists(st.lists(_COMP, min_size=d, max_size=d), min_size=1, max_size=8))
    return {"class": name, "points": pts}


# ---------------------------------------------------------------------------------
# entry paths


def make_bins(case):
    b = case["bins"]
    out = {}
    if "r" in b:
        out["r"] = np.array(b["r"], dtype=float)
    if "phi" in b:
        out["phi"] = b["phi"] if isinstance(b["phi"], int) else np.array(b["phi"], dtype=float)
    if "theta" in b:
        out["theta"] = b["theta"] if isinstance(b["theta"], int) else np.array(b["theta"], dtype=float)
    if "z" in b:
        out["z"] = np.array(b["z"], dtype=float)
    return out


def facade(name, arr, bins, transformed=False, weights=None, how="default"):
    import physt

    kw = {"transformed": transformed}
    if weights is not None:
        kw["weights"] = weights
    if name == "polar":
        return physt.polar(arr[:, 0], arr[:, 1], radial_bins=bins["r"], phi_bins=bins["phi"], **kw)
    if name in ("radial2", "radial3"):
        if transformed:
            return physt.radial(arr.reshape(-1), bins=bins["r"], **kw)
        if name == "radial2":
            return physt.radial(arr[:, 0], arr[:, 1], bins=bins["r"], **kw)
        if how == "single_array":
            return physt.radial(arr, bins=bins["r"], **kw)
        return physt.radial(arr[:, 0], arr[:, 1], arr[:, 2], bins=bins["r"], **kw)
    if name == "azimuthal":
        if transformed:
            return physt.azimuthal(arr.reshape(-1), bins=bins["phi"], **kw)
        return physt.azimuthal(arr[:, 0], arr[:, 1], bins=bins["phi"], **kw)
    if name == "spherical":
        return physt.spherical(arr, radial_bins=bins["r"], theta_bins=bins["theta"], phi_bins=bins["phi"], **kw)
    if name == "spherical_surface":
        return physt.spherical_surface(arr, theta_bins=bins["theta"], phi_bins=bins["phi"], **kw)
    if name == "cylindrical":
        return physt.cylindrical(arr, rho_bins=bins["r"], phi_bins=bins["phi"], z_bins=bins["z"], **kw)
    raise AssertionError(name)


PROJECTION_TABLE = {
    "polar": {(0,): "RadialHistogram", (1,): "AzimuthalHistogram"},
    "spherical": {(0,): "RadialHistogram", (1, 2): "SphericalSurfaceHistogram", (1,): "Histogram1D", (2,): "Histogram1D", (0, 1): "Histogram2D", (0, 2): "Histogram2D"},
    "cylindrical": {(0,): "RadialHistogram", (1,): "AzimuthalHistogram", (0, 1): "PolarHistogram", (1, 2): "CylindricalSurfaceHistogram",
                    (2,): "Histogram1D", (0, 2): "Histogram2D"},
    "spherical_surface": {(0,): "Histogram1D", (1,): "Histogram1D"},
}


def expected_contents(h, tpts, weights):
    """Exact model over the bins the histogram reports, from transformed coordinates."""
    if h.ndim == 1:
        ps = model.pairs_of(h.bins)
        return model.hist1d(ps, [float(t[0]) for t in tpts], weights), ps
    axes_pairs = [model.pairs_of(b) for b in h.bins]
    incl = [bool(b.includes_right_edge) for b in h.binnings]
    return model.histnd(axes_pairs, incl, [[float(c) for c in t] for t in tpts], weights), (axes_pairs, incl)


def assert_contents(ctx, h, m, what):
    if h.ndim == 1:
        for i, want in enumerate(m["freq"]):
            require(F(h.frequencies[i]) == want, "contents", lambda: f"{what}: bin {i}: {h.frequencies[i]!r} want {float(want)}")
            require(F(h.errors2[i]) == m["err2"][i], "errors2", lambda: f"{what}: bin {i}")
        require(F(h.underflow) == m["under"] and F(h.overflow) == m["over"], "missed", f"{what}: {h.underflow},{h.overflow} want {float(m['under'])},{float(m['over'])}")
    else:
        shape = tuple(np.asarray(h.frequencies).shape)
        for idx in itertools.product(*[range(s) for s in shape]):
            require(F(h.frequencies[idx]) == m["cells"].get(idx, 0), "contents", lambda: f"{what}: cell {idx}: {h.frequencies[idx]!r} want {float(m['cells'].get(idx, 0))}")
            require(F(h.errors2[idx]) == m["cells2"].get(idx, 0), "errors2", lambda: f"{what}: cell {idx}")
        require(F(h.missed) == m["missed"], "missed", f"{what}: {h.missed} want {float(m['missed'])}")


def check_paths(case, ctx: Ctx):
    name = case["class"]
    K = klass_of(name)
    pts = [[float(c) for c in p] for p in case["points"]]
    arr = np.array(pts, dtype=float).reshape(len(pts), src_dim(name))
    bins = make_bins(case)
    ws = case.get("weights")
    warr = None if ws is None else np.array(ws, dtype=np.int64)
    tarr = np.asarray(ctx.call("transform", K.transform, arr), dtype=float).reshape(len(pts), -1)
    tpts = [list(t) for t in tarr]
    h = ctx.call(f"{name} facade", facade, name, arr, bins, False, warr, case.get("how", "default"))
    require(type(h) is K, "facade_class", f"{type(h).__name__}")
    # an integer number of angular bins means that many equal bins over the full range
    for key, top in (("phi", TWO_PI), ("theta", math.pi)):
        if isinstance(case["bins"].get(key), int):
            names_ = {"polar": ["r", "phi"], "azimuthal": ["phi"], "spherical": ["r", "theta", "phi"], "spherical_surface": ["theta", "phi"],
                      "cylindrical": ["r", "phi", "z"]}[name]
            a_ = names_.index(key)
            b_ = np.asarray(h.bins if h.ndim == 1 else h.bins[a_], dtype=float)
            n_ = case["bins"][key]
            require(len(b_) == n_ and b_[0][0] == 0.0 and abs(b_[-1][1] - top) <= 4 * math.ulp(top), "angular_bin_count",
                    f"{name}: {key}_bins={n_} gave {len(b_)} bins over [{b_[0][0]!r}, {b_[-1][1]!r}]")
            for i_ in range(n_):
                require(abs((b_[i_][1] - b_[i_][0]) - top / n_) <= 8 * math.ulp(top), "angular_bins_unequal", f"{name}: {key} bin {i_}: {b_[i_].tolist()}")
    m, geo = expected_contents(h, tpts, ws)
    assert_contents(ctx, h, m, "facade")
    paths = 1
    # facade with already transformed coordinates
    ht = ctx.call(f"{name} facade(transformed=True)", facade, name, tarr, bins, True, warr)
    require(type(ht) is K, "facade_class", type(ht).__name__)
    assert_contents(ctx, ht, m, "facade(transformed=True)")
    paths += 1
    empty = h.copy(include_frequencies=False)
    # fill one by one
    e1 = empty.copy()
    for k, p in enumerate(pts):
        w = 1 if ws is None else ws[k]
        found = ctx.call(f"find_bin({p})", e1.find_bin, p)
        found_t = ctx.call("find_bin(transformed)", e1.find_bin, tpts[k] if h.ndim > 1 else float(tpts[k][0]), transformed=True)
        r = ctx.call(f"fill({p})", e1.fill, p) if ws is None else ctx.call(f"fill({p},{w})", e1.fill, p, w)
        if h.ndim == 1:
            want = model.locate(geo, float(tpts[k][0]))
        else:
            want = model.locate_nd(geo[0], geo[1], [float(c) for c in tpts[k]])
        require(r == want, "fill_return", f"fill({p}) -> {r!r}, model {want!r} (transformed {tpts[k]})")
        require(found == want and found_t == want, "find_bin", f"find_bin({p}) = {found!r} / transformed {found_t!r}, model {want!r}")
    assert_contents(ctx, e1, m, "fill one by one")
    paths += 1
    # fill_n
    e2 = empty.copy()
    half = len(pts) // 2
    for a, b in ((0, half), (half, len(pts))):
        kw = {} if ws is None else {"weights": warr[a:b]}
        ctx.call("fill_n", e2.fill_n, arr[a:b], **kw)
    assert_contents(ctx, e2, m, "fill_n")
    # transformed=True through fill / fill_n
    e3 = empty.copy()
    for k, t in enumerate(tpts):
        w = 1 if ws is None else ws[k]
        val = t if h.ndim > 1 else float(t[0])
        ctx.call("fill(transformed=True)", e3.fill, val, w, transformed=True)
    assert_contents(ctx, e3, m, "fill(transformed=True)")
    e4 = empty.copy()
    kw = {} if ws is None else {"weights": warr}
    ctx.call("fill_n(transformed=True)", e4.fill_n, tarr if h.ndim > 1 else tarr.reshape(-1), transformed=True, **kw)
    assert_contents(ctx, e4, m, "fill_n(transformed=True)")
    paths += 3
    # single-precision input: the same points as float32 arrays (exactly representable) land in the same bins
    arr32 = arr.astype(np.float32)
    if len(pts) and np.array_equal(arr32.astype(np.float64), arr):
        e5 = empty.copy()
        kw = {} if ws is None else {"weights": warr}
        ctx.call("fill_n(float32 array)", e5.fill_n, arr32, **kw)
        assert_contents(ctx, e5, m, "fill_n(float32 array)")
        e6 = empty.copy()
        for k in range(len(pts)):
            w = 1 if ws is None else ws[k]
            f32 = ctx.call("find_bin(float32 point)", e6.find_bin, arr32[k])
            r32 = ctx.call("fill(float32 point)", e6.fill, arr32[k], w)
            require(f32 == r32, "float32_find_vs_fill", f"{pts[k]}: {f32!r} vs {r32!r}")
        assert_contents(ctx, e6, m, "fill(float32 points)")
        ctx.label("float32_input")
        paths += 2
    # wrong dimensionality
    wrong = [1.0] * (5 - src_dim(name)) if name not in ("radial2", "radial3") else [1.0]
    ctx.refused("fill with a point of the wrong dimension", empty.copy().fill, wrong)
    ctx.refused("find_bin with a point of the wrong dimension", empty.find_bin, wrong)
    e7 = empty.copy()
    keep7 = np.asarray(e7.frequencies).copy()
    ctx.refused("fill_n with a stack of point arrays (3 array dimensions)", e7.fill_n, np.ones((2, 3, src_dim(name))))
    require(np.array_equal(np.asarray(e7.frequencies), keep7), "refused_fill_n_changed_contents", "")
    # projections
    if name in PROJECTION_TABLE:
        d = h.ndim
        for k in range(1, d):
            for axes in itertools.combinations(range(d), k):
                order = list(axes) if not case.get("reverse_axes") else list(reversed(axes))
                args = [h.axis_names[a] if case.get("by_name") else a for a in order]
                p = ctx.call(f"projection{tuple(args)}", h.projection, *args)
                want_cls = PROJECTION_TABLE[name].get(tuple(axes))
                if want_cls:
                    require(type(p).__name__ == want_cls, "projection_class", f"{name}.projection{axes} -> {type(p).__name__}, expected {want_cls}")
                want = {}
                for idx, v in m["cells"].items():
                    key = tuple(idx[a] for a in axes)
                    want[key] = want.get(key, Fraction(0)) + v
                shape = tuple(np.asarray(p.frequencies).shape)
                for idx in itertools.product(*[range(s) for s in shape]):
                    gi = idx if len(idx) > 1 else idx[0]
                    require(F(p.frequencies[gi]) == want.get(idx, 0), "projection_contents", lambda: f"{name}.projection{axes} cell {idx}: {p.frequencies[gi]!r} want {float(want.get(idx, 0))}")
                require(list(p.axis_names) == [h.axis_names[a] for a in axes], "projection_names", f"{p.axis_names}")
                if type(p).__name__ == "CylindricalSurfaceHistogram":
                    require(float(p.radius) == float(np.asarray(h.bins[0])[-1][1]), "cylinder_radius", f"{p.radius}")
        ctx.label("projections")
    special = any(c == 0 for p in pts for c in p)
    ctx.label("class_" + name, "weighted" if ws is not None else "unweighted")
    ctx.nt(len(pts) >= 1 and (special or paths >= 2))


@st.composite
def path_cases(draw, tier="quick"):
    name = draw(st.sampled_from(CLASSES))
    d = src_dim(name)
    n = draw(st.integers(1, 12))
    if draw(st.integers(0, 2)) == 0:
        # single-precision-exact coordinates, many on the diagonals / axes where phi and theta sit on bin edges
        comp = st.one_of(st.sampled_from([0.0, 1.0, -1.0, 1.0, -1.0, 2.0, -2.0, 0.5, 3.0, 7.25]), st.floats(-10, 10, allow_nan=False, width=32))
    else:
        comp = _COMP.filter(lambda c: abs(c) < 1e5)
    pts = draw(st.lists(st.lists(comp, min_size=d, max_size=d), min_size=n, max_size=n))
    bins = {}
    r_edges = draw(st.sampled_from([[0.0, 1.0, 2.5, 5.0, 20.0], [0.0, 0.5, 1.0, 1.5, 4.0, 9.0, 16.0], [0.5, 2.0, 8.0], [0.0, 1e-9, 1.0, 12.0], [0.0, 3.0]]))
    if name in ("polar", "radial2", "radial3", "spherical", "cylindrical"):
        bins["r"] = r_edges
    if name in ("polar", "azimuthal", "spherical", "spherical_surface", "cylindrical"):
        bins["phi"] = draw(st.one_of(st.sampled_from([1, 2, 3, 4, 8, 16]), st.sampled_from([[0.0, 1.0, 2.0, 4.0, TWO_PI], [0.0, math.pi / 2, math.pi], [1.0, 3.0, 5.0]])))
    if name in ("spherical", "spherical_surface"):
        bins["theta"] = draw(st.one_of(st.sampled_from([1, 2, 3, 4, 8]), st.sampled_from([[0.0, 0.5, 1.0, 2.0, math.pi], [0.0, math.pi / 2, math.pi], [0.5, 2.5]])))
    if name == "cylindrical":
        bins["z"] = draw(st.sampled_from([[-10.0, -1.0, 0.0, 1.0, 10.0], [0.0, 2.0, 5.0], [-3.0, 3.0], [-20.0, -5.0, 0.5, 7.5, 20.0]]))
    ws = draw(st.one_of(st.none(), st.none(), st.lists(st.integers(0, 4), min_size=n, max_size=n)))
    if name == "azimuthal":
        ws = None  # the azimuthal facade takes weights as they are; keep this class unweighted
    return {"class": name, "points": pts, "bins": bins, "weights": ws, "how": draw(st.sampled_from(["default", "single_array"])),
            "by_name": draw(st.booleans()), "reverse_axes": draw(st.booleans())}


FINDINGS = []

SUBS = [
    Sub("transform", lambda tier: transform_cases(tier), check_transform, quick=700, thorough=6000),
    Sub("paths", lambda tier: path_cases(tier), check_paths, quick=900, thorough=4000),
]

RULE += ' Also: the same points as float32 arrays; stacks of point arrays (three array dimensions) refused by transform and fill_n.'
