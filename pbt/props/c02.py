"""C02 — N-D construction: each row counted once, in the cell that contains it."""
from __future__ import annotations

import itertools
import math
from fractions import Fraction

import numpy as np
from hypothesis import strategies as st

from pbt import gen, model
from pbt.core import Ctx, Finding, Sub, Violation, require
from pbt.model import F

LEVEL = "exploration"
RULE = (
    "Cases: d in 2..4, per-axis binnings of different bin counts and kinds (edge array, pair array with gaps, "
    "Static/Numpy binning with right-edge inclusion on or off, FixedWidth), rows built from per-axis values placed "
    "on edges / 1 ulp beside them / in gaps / outside, weights none/int/dyadic/float, NaN rows; entry points h (rows, "
    "nested lists), h2(x, y), h3([x,y,z]), h3(array), method names with per-axis argument lists. Non-trivial: a "
    "coordinate on an edge or 1 ulp beside one, a row that misses exactly one axis, a weighted NaN row, or column-wise "
    "input with unequal bin counts. distinct = SHA-1 of the canonical case."
)
ASSUMPTIONS = [
    "per-axis bins and right-edge inclusion are read from the histogram (binning rules are C07)",
    "int/dyadic weights compared exactly; general floats with (n+8)*eps*sum|w|",
]


def build_axis(ax):
    from physt.binnings import FixedWidthBinning, NumpyBinning, StaticBinning

    form, ps = ax["form"], ax["pairs"]
    edges = [p[0] for p in ps] + [ps[-1][1]]
    if form == "edges":
        return np.array(edges)
    if form == "pairs":
        return np.array(ps)
    if form == "static":
        return StaticBinning(np.array(ps), includes_right_edge=ax["incl"])
    if form == "numpy":
        return NumpyBinning(np.array(edges), includes_right_edge=ax["incl"])
    if form == "fixed":
        return FixedWidthBinning(bin_width=ax["w"], bin_count=ax["n"], min=ax["min"], includes_right_edge=ax["incl"])
    raise AssertionError(form)


def compare(ctx: Ctx, h, rows, weights, wkind, what="", narrow_int=False, narrow_float=False):
    axes_pairs = [model.pairs_of(b) for b in h.bins]
    incl = [bool(b.includes_right_edge) for b in h.binnings]
    for ps in axes_pairs:
        require(model.is_rising(ps), "bins_not_rising", f"{ps}")
    # adaptivity is opt-in (no check in this module asks for it)
    require(not h.is_adaptive(), "adaptive_by_default", f"{what}the histogram is adaptive although adaptive=True was not passed")
    m = model.histnd(axes_pairs, incl, rows, weights)
    shape = tuple(len(ps) for ps in axes_pairs)
    require(h.frequencies.shape == shape == h.errors2.shape, "shape", f"{what}{h.frequencies.shape} vs {shape}")
    n = len(rows)
    exact = wkind in ("none", "int", "dyadic", "signed")
    tol = 0.0 if exact else (n + 8) * 2.0 ** -52 * m["abs_in"] + (n + 1) * 2.3e-308
    mass2 = sum(float(F(w)) ** 2 for w in weights) if weights is not None else float(n)
    tol2 = 0.0 if exact else (n + 16) * 2.0 ** -52 * mass2 + (n + 1) * 2.3e-308
    exp_dtype = np.dtype("int64") if wkind in ("none", "int") else np.dtype("float64")
    if narrow_int:
        # integer weights of a narrow type: the histogram may keep that type or widen it, but stays integral
        require(h.dtype.kind == "i", "dtype", f"{what}{h.dtype} for narrow integer weights")
        exp_dtype = h.dtype
    if narrow_float:
        # float weights of a narrow type: some float type (the values below decide whether it was wide enough)
        require(h.dtype.kind == "f", "dtype", f"{what}{h.dtype} for narrow float weights")
        exp_dtype = h.dtype
    require(h.dtype == exp_dtype == h.frequencies.dtype, "dtype", f"{what}{h.dtype}/{h.frequencies.dtype} vs {exp_dtype}")
    for idx in itertools.product(*[range(s) for s in shape]):
        want = m["cells"].get(idx, Fraction(0))
        want2 = m["cells2"].get(idx, Fraction(0))
        require(model.close(h.frequencies[idx], want, tol), "frequency",
                lambda: f"{what}cell {idx}: got {h.frequencies[idx]!r} want {float(want)!r}")
        require(model.close(h.errors2[idx], want2, tol2), "errors2",
                lambda: f"{what}cell {idx}: got {h.errors2[idx]!r} want {float(want2)!r}")
    require(model.close(h.missed, m["missed"], 3 * tol), "missed", f"{what}missed {h.missed} want {float(m['missed'])}")
    acc = F(h.total) + F(h.missed)
    require(abs(acc - m["total_in"]) <= Fraction(4 * tol), "accounting", f"{what}total+missed={float(acc)} input {float(m['total_in'])}")
    return axes_pairs, incl, m


def label_rows(ctx, axes_pairs, incl, rows, weights):
    for k, row in enumerate(rows):
        if any(math.isnan(x) for x in row):
            ctx.label("nan_row")
            if weights is not None and F(weights[k]) != 1:
                ctx.nt()
            continue
        locs = [model.locate(ps, x, inc) for ps, inc, x in zip(axes_pairs, incl, row)]
        out = sum(1 for l, ps in zip(locs, axes_pairs) if l is None or l < 0 or l >= len(ps))
        if out == 1:
            ctx.label("misses_one_axis")
            ctx.nt()
        elif out:
            ctx.label("misses_several")
        for ps, x in zip(axes_pairs, row):
            es = {e for p in ps for e in p}
            if x in es:
                ctx.label("on_edge")
                ctx.nt()
            elif gen.nextafter(x, True) in es or gen.nextafter(x, False) in es:
                ctx.label("ulp_beside_edge")
                ctx.nt()
            if x == ps[-1][1]:
                ctx.label("on_last_edge")
        if any(l is None for l in locs):
            ctx.label("in_gap")


def check_explicit(case, ctx: Ctx):
    import physt

    d = len(case["axes"])
    rows = [list(r) for r in case["rows"]]
    weights, wkind = case["weights"], case["wkind"]
    bins = [build_axis(ax) for ax in case["axes"]]
    incl_kwarg = case.get("incl_kwarg")
    if incl_kwarg is not None:
        # the right-edge declaration given to the facade (one flag, or one per axis) instead of through binning objects
        bins = [np.array([p[0] for p in ax["pairs"]] + [ax["pairs"][-1][1]]) for ax in case["axes"]]
    arr = np.array(rows, dtype=float).reshape(len(rows), d)
    warr = None
    if weights is not None:
        warr = np.array(weights, dtype=(case.get("wdtype") or np.int64) if wkind == "int" else (case.get("fwdtype") or np.float64))
    entry = case["entry"]
    ctx.label("entry_" + entry, f"d{d}", f"w_{wkind}")
    kwargs = {}
    if incl_kwarg is not None:
        kwargs["includes_right_edge"] = incl_kwarg
        ctx.label("incl_by_keyword")
    if warr is not None:
        kwargs["weights"] = warr if case.get("wform", "array") == "array" or len(weights) == 0 else list(weights)
    if not case["dropna"]:
        kwargs["dropna"] = False
    has_nan = bool(np.isnan(arr).any())

    def build(arr_, bins_):
        if entry == "h":
            return physt.h(arr_, bins_, **kwargs)
        if entry == "h_lists":
            return physt.h(arr_.tolist(), bins_, dim=d, **kwargs) if len(arr_) == 0 else physt.h(arr_.tolist(), bins_, **kwargs)
        if entry == "h2":
            return physt.h2(arr_[:, 0], arr_[:, 1], bins_, **kwargs)
        if entry == "h2_lists":
            return physt.h2(arr_[:, 0].tolist(), arr_[:, 1].tolist(), bins_, **kwargs)
        if entry == "h3_cols":
            return physt.h3([arr_[:, 0], arr_[:, 1], arr_[:, 2]], bins_, **kwargs)
        if entry == "h3_col_lists":
            # the three components as plain Python lists / a tuple of lists
            return physt.h3((arr_[:, 0].tolist(), arr_[:, 1].tolist(), arr_[:, 2].tolist()), bins_, **kwargs)
        if entry == "h3_col_series":
            import pandas as pd

            return physt.h3([pd.Series(arr_[:, 0], name="a"), pd.Series(arr_[:, 1], name="b"), pd.Series(arr_[:, 2], name="c")], bins_, **kwargs)
        if entry == "h3":
            return physt.h3(arr_, bins_, **kwargs)
        raise AssertionError(entry)

    if has_nan and not case["dropna"]:
        ctx.label("refusal_nan_without_dropna")
        ctx.nt()
        ctx.refused("N-D construction with NaN and dropna=False", build, arr, bins)
        return
    if wkind == "signed":
        # negative weights are legal input; a histogram with a negative cell is not
        # (outside free arithmetics) and may be refused
        ctx.label("signed_weights")
        mm = model.histnd([ax["pairs"] for ax in case["axes"]], [ax.get("incl", True) for ax in case["axes"]], rows, weights)
        if any(v < 0 for v in mm["cells"].values()):
            ctx.label("negative_cell")
            ok, h = ctx.maybe(build, arr, bins)
            if not ok:
                return
        elif mm["missed"] < 0:
            ctx.label("negative_missed")
            ctx.nt()
    h = ctx.call(entry, build, arr, bins)
    # explicit specifications must be reproduced exactly
    for i, ax in enumerate(case["axes"]):
        if ax["form"] != "fixed":
            got = model.pairs_of(h.bins[i])
            require(got == [tuple(map(float, p)) for p in ax["pairs"]], "bins_differ_from_spec", f"axis {i}: {got} vs {ax['pairs']}")
            if ax["form"] in ("static", "numpy") or incl_kwarg is not None:
                require(bool(h.binnings[i].includes_right_edge) == ax["incl"], "incl_flag_lost", f"axis {i}: declared {h.binnings[i].includes_right_edge}, requested {ax['incl']}")
    expected_class = "Histogram2D" if d == 2 else "HistogramND"
    require(type(h).__name__ == expected_class, "class", type(h).__name__)
    axes_pairs, incl, m = compare(ctx, h, rows, weights, wkind, narrow_int=bool(case.get("wdtype")), narrow_float=bool(case.get("fwdtype")))
    label_rows(ctx, axes_pairs, incl, rows, weights)
    shape = h.frequencies.shape
    if len(set(shape)) == len(shape):
        ctx.label("all_extents_differ")
        if entry in ("h2", "h2_lists", "h3_cols"):
            ctx.nt()
    if len(rows) == 0:
        ctx.label("empty")
    # metamorphic: permuting columns and binnings together permutes the axes
    perm = case.get("perm")
    if perm and entry in ("h", "h_lists") and sorted(perm) == list(range(d)) and perm != list(range(d)):
        arr2 = arr[:, perm]
        bins2 = [bins[j] for j in perm] if incl_kwarg is not None else [build_axis(case["axes"][j]) for j in perm]
        if isinstance(incl_kwarg, list):
            kwargs["includes_right_edge"] = [incl_kwarg[j] for j in perm]
        h2 = ctx.call("permuted " + entry, build, arr2, bins2)
        want = np.transpose(h.frequencies, perm)
        require(np.array_equal(h2.frequencies, want), "axis_permutation", f"perm {perm}")
        require(F(h2.missed) == F(h.missed) or wkind == "float", "axis_permutation_missed", f"{h2.missed} vs {h.missed}")
        ctx.label("permuted")


AX_FORMS = ["edges", "pairs", "static", "static", "numpy", "fixed"]


@st.composite
def axis(draw, max_bins):
    form = draw(st.sampled_from(AX_FORMS))
    ax = {"form": form}
    if form == "fixed":
        w = draw(st.sampled_from([0.25, 0.5, 1.0, 2.0, 0.1, 3.0]))
        n = draw(st.integers(1, max_bins))
        mn = draw(st.integers(-8, 8)) * w
        ax.update(w=w, n=n, min=mn, incl=draw(st.booleans()))
        # the edges as physt computes them ((times_min + i) * width + shift): generated values and the prediction of
        # refusals then refer to the real edges, not to edges that are an ulp beside them
        tm_ = math.floor(mn / w)
        sh_ = mn - tm_ * w
        ax["pairs"] = [[(tm_ + i) * w + sh_, (tm_ + i + 1) * w + sh_] for i in range(n)]
    elif form in ("pairs", "static"):
        ax["pairs"] = draw(gen.pairs(1, max_bins, narrow=True))
        ax["incl"] = draw(st.booleans()) if form == "static" else True
    else:
        ax["pairs"] = draw(gen.pairs(1, max_bins, gapped=False))
        ax["incl"] = draw(st.booleans()) if form == "numpy" else True
    return ax


@st.composite
def explicit_cases(draw, tier="quick"):
    d = draw(st.sampled_from([2, 2, 3, 3, 4]))
    max_bins = 6 if d < 4 else 4
    axes = [draw(axis(max_bins)) for _ in range(d)]
    n = draw(st.one_of(st.integers(0, 40 if tier == "thorough" else 25), st.just(d), st.just(d)))  # n == d: a square data block
    allow_nan = draw(st.sampled_from([False, False, True]))
    cols = [draw(gen.values_for(ax["pairs"], n, n, allow_nan=allow_nan)) for ax in axes]
    rows = [[cols[j][i] for j in range(d)] for i in range(n)]
    wkind, weights = draw(gen.weights_for(n, kinds=("none", "int", "dyadic", "float", "signed", "signed")))
    if wkind == "signed" and n and draw(st.booleans()):
        # rows far outside every axis carrying negative weight: the missed weight is then negative
        k = draw(st.integers(1, 2))
        for _ in range(k):
            rows.append([ax["pairs"][-1][1] + 3 * (ax["pairs"][-1][1] - ax["pairs"][0][0]) for ax in axes])
            weights = list(weights) + [-draw(st.integers(1, 40)) / 2]
        n = len(rows)
    wdtype = None
    if wkind == "int" and draw(st.integers(0, 2)) == 0:
        # integer weights stored in a narrow type whose sums / squares leave that type
        wdtype = draw(st.sampled_from(["int8", "uint8", "int16", "int32", "uint16"]))
        heavy = {"int8": [100, 120, 7, 0], "uint8": [200, 255, 16, 0], "int16": [30000, 200, 3, 0], "int32": [100000, 2 ** 20, 5, 0], "uint16": [60000, 300, 1, 0]}[wdtype]
        # (N-D contents are accumulated by numpy.histogramdd in float64: sums of squares stay below 2**53 here)
        weights = [draw(st.sampled_from(heavy)) for _ in weights]
    fwdtype = None
    if wkind in ("dyadic", "float") and draw(st.integers(0, 3)) == 0:
        # float weights stored in a narrow type whose squares / sums leave that type (all exactly representable in it)
        fwdtype = draw(st.sampled_from(["float16", "float32"]))
        heavy = {"float16": [300.0, 1024.0, 0.5, 60000.0, 0.0], "float32": [2.0 ** 100, 2.0 ** 70, 3.0, 0.5, 2.0 ** 127]}[fwdtype]
        weights = [draw(st.sampled_from(heavy)) for _ in weights]
        wkind = "float"
    incl_kwarg = None
    special = draw(st.integers(0, 5))
    if special == 0 and all(not model.gaps([tuple(p) for p in ax["pairs"]]) for ax in axes) and n:
        # explicit edges for every axis + the declaration as a keyword argument (a scalar or a per-axis list)
        for ax in axes:
            ax["form"] = "edges"
        if draw(st.booleans()):
            flag = draw(st.booleans())
            incl_kwarg = flag
            for ax in axes:
                ax["incl"] = flag
        else:
            incl_kwarg = [draw(st.booleans()) for _ in axes]
            for ax, f_ in zip(axes, incl_kwarg):
                ax["incl"] = f_
    elif special == 1 and d >= 2 and n:
        # two axes with identical bins but different declarations
        src = axes[0]
        if src["form"] in ("static", "numpy") and not model.gaps([tuple(p) for p in src["pairs"]]):
            axes[1] = {"form": draw(st.sampled_from(["static", "numpy"])) if src["form"] == "numpy" else "static", "pairs": [list(p) for p in src["pairs"]], "incl": not src["incl"]}
    if special in (0, 1) and n:
        # several rows on the last edges
        for r_ in rows[: max(1, n // 2)]:
            j_ = draw(st.integers(0, d - 1))
            r_[j_] = axes[j_]["pairs"][-1][1]
    entries = {2: ["h", "h", "h_lists", "h2", "h2", "h2_lists"], 3: ["h", "h_lists", "h3", "h3_cols", "h3_cols", "h3_col_lists", "h3_col_series"], 4: ["h", "h_lists"]}[d]
    entry = draw(st.sampled_from(entries))
    if entry in ("h3_cols", "h3_col_lists", "h3_col_series") and n == 0:
        entry = "h3"
    if entry == "h_lists" and n == 0:
        entry = "h"  # an empty nested list cannot express the shape (0, d)
    perm = draw(st.permutations(list(range(d))))
    return {"axes": axes, "rows": rows, "wkind": wkind, "weights": weights, "entry": entry,
            "dropna": draw(st.sampled_from([True, True, True, False])), "perm": list(perm),
            "wform": "array" if wdtype or fwdtype else draw(st.sampled_from(["array", "list"])), "wdtype": wdtype, "fwdtype": fwdtype, "incl_kwarg": incl_kwarg}


# ---------------------------------------------------------------------------------
# method names with per-axis argument lists


def check_method(case, ctx: Ctx):
    import physt

    rows = [list(r) for r in case["rows"]]
    d = len(rows[0])
    arr = np.array(rows, dtype=float)
    weights, wkind = case["weights"], case["wkind"]
    kwargs = {k: (list(v) if isinstance(v, list) else v) for k, v in case["kwargs"].items()}
    if weights is not None:
        kwargs["weights"] = np.array(weights, dtype=np.int64 if wkind == "int" else np.float64)
    bins = case["bins"]
    ctx.label("method_" + (str(bins) if not isinstance(bins, list) else "list"), f"d{d}")

    def build():
        if case.get("default_bins"):
            # no bin specification at all: ten equal bins per axis between the column's minimum and maximum
            if case["entry"] == "h2":
                return physt.h2(arr[:, 0], arr[:, 1], **kwargs)
            if case["entry"] == "h3_cols":
                return physt.h3([arr[:, j] for j in range(3)], **kwargs)
            return physt.h(arr, **kwargs)
        if case["entry"] == "h2":
            return physt.h2(arr[:, 0], arr[:, 1], bins, **kwargs)
        if case["entry"] == "h3_cols":
            return physt.h3([arr[:, j] for j in range(3)], bins, **kwargs)
        return physt.h(arr, bins, **kwargs)

    if case.get("refuse") == "h3_columns":
        ctx.label("refusal_h3_columns")
        ctx.nt()
        ctx.refused("h3 of two-column data", physt.h3, arr[:, :2], 3)
        ctx.refused("h3 of four-column data", physt.h3, np.hstack([arr, arr])[:, :4], 3)
        ctx.refused("h2 with columns of different length", physt.h2, arr[:, 0], arr[:-1, 1], 3)
        return
    if case.get("refuse"):
        # per-axis arguments that do not match the number of axes are refused, never spread over the wrong axes
        ctx.label("refusal_" + case["refuse"])
        ctx.nt()
        ctx.refused(f"{case['entry']}(bins={bins!r}, {case['kwargs']!r}) on {d}-column data", build)
        if case["refuse"] == "bins_count":
            # ... one item too many and one too few as well, whatever length was generated
            for k_ in (d + 1, d - 1):
                if k_ >= 1:
                    ctx.refused(f"h(bins=list of {k_} counts) on {d}-column data", physt.h, arr, [3, 2, 4, 2, 3][:k_])
        return
    ok, h = ctx.maybe(build)
    if not ok:
        ctx.label("binning_refused:" + type(h).__name__)
        return
    require(h.ndim == d, "ndim", f"{h.ndim} vs {d}")
    if case.get("default_bins"):
        for j in range(d):
            e = np.asarray(h.numpy_bins[j], dtype=float)
            try:
                want = np.histogram_bin_edges(arr[:, j], bins=10)
            except ValueError:
                # (numpy itself cannot cut this column into 10 finite bins: no reference to compare with)
                ctx.label("numpy_refuses_default_bins")
                continue
            require(len(e) == 11 and np.array_equal(e, want), "default_bins", f"axis {j}: {e.tolist()} vs numpy's {want.tolist()}")
        ctx.label("default_bins")
    if case.get("shared_range"):
        lo, hi = case["kwargs"]["range"]
        for j in range(d):
            e = np.asarray(h.get_bin_edges(j) if hasattr(h, "get_bin_edges") else h.numpy_bins[j])
            cnt = bins if isinstance(bins, int) else bins[j]
            require(len(e) == cnt + 1 and float(e[0]) == lo and float(e[-1]) == hi, "shared_range_edges", f"axis {j}: {e.tolist()} for range ({lo}, {hi}), {cnt} bins")
        ctx.label("shared_range")
        ctx.nt()
    axes_pairs, incl, m = compare(ctx, h, rows, weights, wkind)
    label_rows(ctx, axes_pairs, incl, rows, weights)
    if isinstance(bins, list) or any(isinstance(v, list) for v in case["kwargs"].values()):
        ctx.label("per_axis_arguments")
        ctx.nt()


@st.composite
def method_cases(draw, tier="quick"):
    d = draw(st.sampled_from([2, 2, 3, 4]))
    n = draw(st.integers(2, 30))
    cols = []
    for j in range(d):
        base, scale = draw(st.sampled_from([(0.0, 1.0), (10.0, 0.1), (-5.0, 3.0), (1e3, 1.0), (0.0, 1e-3), (1.0, 100.0)]))
        if draw(st.booleans()):
            xs = [float(v) for v in draw(st.lists(st.integers(-10, 10), min_size=n, max_size=n))]
        else:
            xs = [base + x * scale for x in draw(st.lists(st.floats(0, 10, allow_nan=False), min_size=n, max_size=n))]
        cols.append(xs)
    rows = [[cols[j][i] for j in range(d)] for i in range(n)]
    which = draw(st.sampled_from(["int", "int_list", "fixed_width", "fixed_width_list", "integer", "pretty", "mixed_list", "numpy_range", "shared_range", "refuse", "refuse"]))
    kwargs = {}
    refuse = None
    if which == "shared_range":
        # one (lo, hi) pair applies to every axis
        bins = draw(st.one_of(st.integers(1, 6), st.lists(st.integers(1, 6), min_size=d, max_size=d)))
        lo = float(draw(st.integers(-12, 5)))
        kwargs["range"] = [lo, lo + draw(st.sampled_from([1.0, 4.0, 7.5, 20.0]))]
    elif which == "refuse":
        refuse = draw(st.sampled_from(["bins_count", "bins_count", "bins_count", "range_count", "kwarg_count", "h3_columns"]))
        other = draw(st.sampled_from([k for k in (1, 2, 3, 4, 5) if k != d and not (k == 2 and refuse == "range_count")]))
        if refuse == "h3_columns":
            bins = 3
        elif refuse == "bins_count":
            bins = [draw(st.integers(1, 6)) for _ in range(other)]
        elif refuse == "range_count":
            bins = draw(st.integers(1, 6))
            kwargs["range"] = [[-20.0, 20.0 + k] for k in range(other)]
        else:
            bins = "fixed_width"
            kwargs["bin_width"] = [draw(st.sampled_from([0.5, 1.0, 2.5])) for _ in range(other)]
    elif which == "int":
        bins = draw(st.integers(1, 6))
    elif which == "int_list":
        bins = [draw(st.integers(1, 6)) for _ in range(d)]
    elif which == "fixed_width":
        bins = "fixed_width"
        kwargs["bin_width"] = draw(st.sampled_from([0.5, 1.0, 2.5, 10.0]))
    elif which == "fixed_width_list":
        bins = "fixed_width"
        kwargs["bin_width"] = [draw(st.sampled_from([0.5, 1.0, 2.5, 10.0, 50.0])) for _ in range(d)]
    elif which == "integer":
        bins = "integer"
    elif which == "pretty":
        bins = "pretty"
        if draw(st.booleans()):
            kwargs["bin_count"] = [draw(st.integers(2, 8)) for _ in range(d)]
    elif which == "mixed_list":
        bins = [draw(st.sampled_from(["numpy", "pretty", "integer", 3, 5])) for _ in range(d)]
    else:
        bins = "numpy"
        kwargs["bin_count"] = [draw(st.integers(1, 5)) for _ in range(d)]
        kwargs["range"] = [[min(c) - 1.0, max(c) + draw(st.sampled_from([0.0, 1.0, -0.5]))] for c in cols]
    # keep the number of cells bounded (memory is the limit the code imposes)
    if which in ("fixed_width", "fixed_width_list", "integer", "mixed_list", "pretty"):
        widths = kwargs.get("bin_width", 1.0)
        widths = widths if isinstance(widths, list) else [widths] * d
        cap = {2: 40.0, 3: 12.0, 4: 6.0}[d]
        for c, w in zip(cols, widths):
            span = max(c) - min(c)
            if span / min(w, 1.0) > cap:
                lo = min(c)
                c[:] = [lo + (x - lo) * (cap * min(w, 1.0)) / span for x in c]
        rows = [[cols[j][i] for j in range(d)] for i in range(n)]
    wkind, weights = draw(gen.weights_for(n))
    entry = draw(st.sampled_from({2: ["h", "h2"], 3: ["h", "h3_cols"], 4: ["h"]}[d]))
    if refuse:
        entry = "h"
    default_bins = which == "int" and not refuse and draw(st.integers(0, 2)) == 0 and all(max(c) > min(c) for c in cols)
    return {"rows": rows, "bins": bins, "kwargs": kwargs, "wkind": wkind, "weights": weights, "entry": entry,
            "shared_range": which == "shared_range", "refuse": refuse, "default_bins": default_bins}


FINDINGS = []

SUBS = [
    Sub("explicit", lambda tier: explicit_cases(tier), check_explicit, quick=900, thorough=5000),
    Sub("method", lambda tier: method_cases(tier), check_method, quick=400, thorough=2000),
]

RULE += ' Also: one (lo, hi) range shared by all axes (edges asserted), per-axis argument lists whose length differs from the number of axes (refused), square data blocks, signed weights.'
