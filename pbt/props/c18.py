"""C18 — histograms stay well-formed; failed operations change nothing (fault enumeration)."""
from __future__ import annotations

import itertools
import math
from fractions import Fraction

import numpy as np
from hypothesis import strategies as st

from pbt import gen, hgen, model
from pbt.core import Ctx, Finding, Sub, Violation, require
from pbt.model import F
from pbt.snap import snapshot, snap_equal, snap_diff, same

LEVEL = "fault_enumeration"
LEVEL_TEXT = (
    "Fault enumeration by property-based generation: histories of valid public operations on 1-D / N-D, adaptive / fixed, "
    "int / float histograms with invalid calls from a fixed catalogue (the FAULTS list in pbt/props/c18.py, 38 kinds) injected at generated positions. "
    "After every step the shape/sign invariants are checked; after every call that raised, the map bin-interval -> "
    "(content, squared error) and the missed counters must be exactly what they were. Every catalogue entry is "
    "exercised in every run (coverage.classes lists the counts); no claim of absence beyond the explored histories."
)
RULE = (
    "A case is a history: seed histogram (1-D / 2-D / 3-D, adaptive fixed-width or static incl. gapped axes, int or "
    "float dtype, missed values) and a list of steps, each either a valid mutation (fill, fill_n, +=, -= of a smaller "
    "histogram, *=, /=, in-place merge, dtype change, adaptive growth) or a fault from the catalogue (incompatible / "
    "other-dimension / non-histogram operand, -= of a larger histogram, negative / non-numeric / zero factor, wrong data "
    "shape, wrong weight shape / length / type, invalid or lossy dtype, bad axis / index / merge amount, merge across a "
    "gap on one of several axes, frequencies= / errors2= with wrong shape or negative entries, collection with differing "
    "binnings). Non-trivial: >= 2 faults of different kinds with at least one after a valid mutation. distinct = SHA-1."
)
ASSUMPTIONS = [
    "a fault that does not raise (e.g. a negative weight in fill) is legal behaviour; the non-negativity invariant is then suspended for that object",
    "after a raising call new empty bins (adaptive growth before the failure) and a lossless dtype promotion are allowed",
    "accumulated contents / squared errors beyond the int64 range wrap around as numpy integers do (out of domain): generated weights are either small or so large that a single square already leaves int64 / float64",
]

FAULTS = ["iadd_other_bins", "iadd_other_dim", "iadd_scalar", "iadd_list", "iadd_str", "isub_larger", "isub_slightly_larger", "isub_none", "imul_negative", "imul_str", "imul_list",
          "imul_hist", "idiv_zero", "idiv_negative", "idiv_str", "idiv_hist", "fill_wrong_shape", "fill_weight_str", "fill_weight_huge", "fill_n_wrong_shape",
          "fill_n_weights_length", "fill_n_weights_after_nan", "fill_n_weights_str", "fill_n_growth_bad_weights", "fill_n_infinite", "dtype_invalid", "dtype_lossy", "merge_bad_amount", "merge_bad_axis", "merge_gap", "index_bad",
          "set_frequencies_shape", "set_frequencies_negative", "set_errors2_shape", "set_errors2_negative", "projection_bad", "collection_mismatch",
          "normalize_empty_copy"]


def content_map(h):
    """bin interval (per axis) -> (content, errors2) for non-zero entries; plus missed."""
    bins = [np.asarray(b.bins, dtype=float) for b in h.binnings]
    f = np.asarray(h.frequencies)
    e = np.asarray(h.errors2)
    out = {}
    if f.shape != tuple(len(b) for b in bins) or e.shape != f.shape:
        return None
    for idx in zip(*np.nonzero((f != 0) | (e != 0))) if f.size else []:
        key = tuple((float(bins[a][i][0]), float(bins[a][i][1])) for a, i in enumerate(idx))
        out[key] = (f[idx].item(), e[idx].item())  # (Python numbers: int64 contents compare exactly with their float images)
    s = snapshot(h, stats=False, meta=False)
    return out, s["missed"]


def invariants(h, what, nonneg):
    shape = tuple(b.bin_count for b in h.binnings)
    f, e = np.asarray(h.frequencies), np.asarray(h.errors2)
    require(tuple(f.shape) == shape == tuple(e.shape), "malformed", f"{what}: frequencies {f.shape} errors2 {e.shape} bins {shape}")
    for b in h.binnings:
        require(len(np.asarray(b.bins)) == b.bin_count, "malformed_binning", what)
    require(not np.any(e < 0), "negative_errors2", f"{what}: {e.tolist()}")
    if nonneg:
        require(not np.any(f < 0), "negative_content", f"{what}: {f.tolist()}")
    require(h.dtype == f.dtype, "dtype_inconsistent", f"{what}: {h.dtype} vs {f.dtype}")


def check_history(case, ctx: Ctx):
    import physt
    from physt.config import config
    from physt.histogram_collection import HistogramCollection

    h = ctx.call("build", hgen.build, case["spec"])
    d = h.ndim
    nonneg = True
    require(not config.free_arithmetics, "free_arithmetics_leaked", "")
    invariants(h, "after construction", nonneg)
    faults_seen = []
    operands = []
    valid_before_fault = False
    any_valid = False

    def other(spec_mod=None, zero=False, scale=1):
        o = h.copy()
        if zero:
            o = o * 0
        elif scale != 1:
            o = o * scale
        return o

    def point(ts):
        pt = []
        for a, b in enumerate(h.binnings):
            if b.bin_count == 0:
                pt.append(ts[a % len(ts)])
            else:
                lo, hi = float(b.bins[0][0]), float(b.bins[-1][1])
                pt.append(lo + (hi - lo) * ts[a % len(ts)])
        return pt[0] if d == 1 else pt

    for k, op in enumerate(case["ops"]):
        name = op[0]
        what = f"step {k} {name}"
        before = content_map(h)
        before_snap = snapshot(h, stats=False)
        raised = None
        is_fault = name in FAULTS

        def attempt(fn, *a, **kw):
            nonlocal raised
            try:
                return fn(*a, **kw)
            except Exception as exc:  # noqa: BLE001
                raised = exc
                return None

        # ------------------------------------------------ valid operations
        if name == "fill":
            attempt(h.fill, point(op[1]), *( [op[2]] if op[2] is not None else []))
        elif name == "fill_n":
            pts = [point(t) for t in op[1]]
            arr = np.array(pts, dtype=float).reshape(len(pts), d) if d > 1 else np.array(pts, dtype=float)
            attempt(h.fill_n, arr)
        elif name in ("iadd", "iadd_grown"):
            o = other()
            if name == "iadd_grown":
                # an adaptive operand over a different range (grown by a fill outside the common bins)
                if not h.is_adaptive():
                    continue
                o.fill(point(op[1]))
            kept = content_map(o)
            def f():
                nonlocal h
                h += o
            attempt(f)
            operands.append((o, kept, what))
        elif name == "isub_smaller":
            o = other(zero=True)
            def f():
                nonlocal h
                h -= o
            attempt(f)
        elif name == "imul":
            def f():
                nonlocal h
                h *= op[1]
            attempt(f)
        elif name == "idiv":
            def f():
                nonlocal h
                h /= op[1]
            attempt(f)
        elif name == "merge":
            attempt(lambda: h.merge_bins(op[1], inplace=True))
        elif name == "set_dtype":
            attempt(h.set_dtype, op[1])
        # ------------------------------------------------ faults
        elif name == "iadd_other_bins":
            spec2 = dict(case["spec"])
            def widened(ps):  # the same bins plus one more on the right: never "the same bins"
                ps = [list(p) for p in ps if True]
                cons = [ps[0]] + [[a[1], b[1]] for a, b in zip(ps[:-1], ps[1:])]  # close gaps (NumpyBinning needs edges)
                last = cons[-1][1]
                return cons + [[last, last + max(last - cons[0][0], 1.0)]]

            spec2 = {**spec2, "axes": [{"form": "numpy", "pairs": widened(ax["pairs"]), "incl": True} for ax in spec2["axes"]]}
            shape = [len(a["pairs"]) for a in spec2["axes"]]
            spec2["freq"] = np.ones(shape, dtype=int).tolist()
            spec2["err2"] = None
            spec2["dtype"] = "int64"
            spec2["adaptive"] = False
            spec2["missed"] = [0, 0, 0] if d == 1 else [0]
            spec2.pop("class", None)
            o = hgen.build(spec2)
            if h.is_adaptive():
                is_fault = False  # adaptive histograms may legitimately try to adapt
            def f():
                nonlocal h
                h += o
            attempt(f)
        elif name == "iadd_other_dim":
            o = physt.h1([0.5], [0, 1]) if d > 1 else physt.h2([0.5], [0.5], [np.array([0.0, 1.0]), np.array([0.0, 1.0])])
            def f():
                nonlocal h
                h += o
            attempt(f)
        elif name in ("iadd_scalar", "iadd_list", "iadd_str", "isub_none"):
            operand = {"iadd_scalar": 3, "iadd_list": np.ones(h.shape).tolist(), "iadd_str": "x", "isub_none": None}[name]
            def f():
                nonlocal h
                if name == "isub_none":
                    h -= operand
                else:
                    h += operand
            attempt(f)
        elif name == "isub_slightly_larger":
            # one ulp more than is there: the result would be negative by ~1e-17
            if not np.any(np.asarray(h.frequencies) > 0):
                continue
            o = other(scale=1.0000000000000002)
            if not np.any(np.asarray(o.frequencies, dtype=np.longdouble) > np.asarray(h.frequencies, dtype=np.longdouble)):
                continue
            def f():
                nonlocal h
                h -= o
            attempt(f)
        elif name == "isub_larger":
            if not np.any(np.asarray(h.frequencies) > 0):
                continue
            o = other(scale=2)
            def f():
                nonlocal h
                h -= o
            attempt(f)
        elif name in ("imul_negative", "imul_str", "imul_list", "imul_hist"):
            if name == "imul_negative" and not np.any(np.asarray(h.frequencies) != 0):
                continue
            operand = {"imul_negative": -2 if k % 2 else -1.5, "imul_str": "2", "imul_list": [2] * max(1, h.shape[0]), "imul_hist": other()}[name]
            def f():
                nonlocal h
                h *= operand
            attempt(f)
        elif name in ("idiv_zero", "idiv_negative", "idiv_str", "idiv_hist"):
            if name == "idiv_negative" and not np.any(np.asarray(h.frequencies) != 0):
                continue
            operand = {"idiv_zero": 0, "idiv_negative": -4, "idiv_str": "2", "idiv_hist": other()}[name]
            def f():
                nonlocal h
                h /= operand
            attempt(f)
        elif name == "fill_wrong_shape":
            bad = [0.5] * (d + 1) if d > 1 else [0.5, 0.5]
            attempt(h.fill, bad)
        elif name == "fill_weight_str":
            attempt(h.fill, point([0.5, 0.5, 0.5]), "heavy")
        elif name == "fill_weight_huge":
            # a weight whose square does not fit (int64 / float64); accepted or refused, never half booked
            attempt(h.fill, point([0.5, 0.5, 0.5]), op[1])
        elif name == "fill_n_wrong_shape":
            bad = np.zeros((2, d + 1)) if d > 1 else None
            if bad is None:
                continue
            attempt(h.fill_n, bad)
        elif name == "fill_n_weights_length":
            pts = [point([0.3, 0.3, 0.3]), point([0.6, 0.6, 0.6])]
            arr = np.array(pts, dtype=float).reshape(2, d) if d > 1 else np.array(pts, dtype=float)
            attempt(h.fill_n, arr, weights=np.array([1.0, 2.0, 3.0]))
        elif name == "fill_n_weights_after_nan":
            # one weight too few, which happens to be the number of rows that survive the NaN filter
            pts = [point([0.3, 0.3, 0.3]), point([0.6, 0.6, 0.6]), point([0.4, 0.4, 0.4])]
            arr = np.array(pts, dtype=float).reshape(3, d) if d > 1 else np.array(pts, dtype=float)
            arr = arr.copy()
            if d > 1:
                arr[1, 0] = np.nan
            else:
                arr[1] = np.nan
            attempt(h.fill_n, arr, weights=np.array([1.0, 2.0]))
        elif name == "fill_n_growth_bad_weights":
            # values that need new bins (adaptive) together with invalid weights, in one call
            pts = [point([1.7, 1.7, 1.7]), point([-0.6, -0.6, -0.6]), point([0.5, 0.5, 0.5])]
            arr = np.array(pts, dtype=float).reshape(3, d) if d > 1 else np.array(pts, dtype=float)
            bad = {"short": np.array([1.0, 2.0]), "long": np.array([1.0, 2.0, 3.0, 4.0]), "str": ["a", "b", "c"], "2d": np.ones((3, 2))}[op[1]]
            attempt(h.fill_n, arr, weights=bad)
        elif name == "fill_n_infinite":
            # a batch with a value that needs new bins and an infinite one
            vals = [point([-0.6, -0.6, -0.6]), point([0.5, 0.5, 0.5])]
            arr = np.array(vals, dtype=float).reshape(2, d) if d > 1 else np.array(vals, dtype=float)
            arr = arr.copy()
            if d > 1:
                arr[1, -1] = np.inf if op[1] else -np.inf
            else:
                arr[1] = np.inf if op[1] else -np.inf
            attempt(h.fill_n, arr)
        elif name == "fill_n_weights_str":
            pts = [point([0.3, 0.3, 0.3]), point([0.6, 0.6, 0.6])]
            arr = np.array(pts, dtype=float).reshape(2, d) if d > 1 else np.array(pts, dtype=float)
            attempt(h.fill_n, arr, weights=["a", "b"])
        elif name == "dtype_invalid":
            attempt(h.set_dtype, op[1])
        elif name == "dtype_lossy":
            f_, e_ = np.asarray(h.frequencies, dtype=float), np.asarray(h.errors2, dtype=float)
            target = op[1]
            info = np.iinfo(target)
            lossy = bool(np.any(f_ % 1) or np.any(e_ % 1) or np.any(f_ > info.max) or np.any(e_ > info.max))
            if not lossy:
                continue
            attempt(h.set_dtype, target)
            require(raised is not None, "lossy_dtype_accepted", f"{what}: set_dtype({target}) accepted although contents {f_.ravel().tolist()} / errors2 {e_.ravel().tolist()} do not fit")
        elif name == "merge_bad_amount":
            attempt(lambda: h.merge_bins(op[1], inplace=True))
        elif name == "merge_bad_axis":
            attempt(lambda: h.merge_bins(2, axis=op[1], inplace=True))
        elif name == "merge_gap":
            gapped = [a for a, b in enumerate(h.binnings) if model.gaps(model.pairs_of(b.bins))]
            if not gapped:
                continue
            amt = max(b.bin_count for b in h.binnings) + 1
            how = op[1] if len(op) > 1 else None
            if how == "axis_index":
                attempt(lambda: h.merge_bins(amt, axis=gapped[0], inplace=True))
            elif how == "axis_name":
                attempt(lambda: h.merge_bins(amt, axis=h.axis_names[gapped[0]], inplace=True))
            elif how == "min_frequency":
                attempt(lambda: h.merge_bins(min_frequency=2.0 * float(np.asarray(h.frequencies).sum()) + 1.0, axis=gapped[0], inplace=True))
            else:
                attempt(lambda: h.merge_bins(amt, inplace=True))
        elif name == "index_bad":
            attempt(lambda: h[tuple([0] * (d + 1))] if d > 1 else h[h.bin_count + 3])
        elif name in ("set_frequencies_shape", "set_frequencies_negative", "set_errors2_shape", "set_errors2_negative"):
            shape = tuple(s + (1 if "shape" in name else 0) for s in h.shape)
            val = np.ones(shape) * ((-5e-17 if (len(op) > 1 and op[1]) else -1) if "negative" in name else 1)
            if "negative" in name and val.size == 0:
                continue
            attempt(setattr, h, "frequencies" if "frequencies" in name else "errors2", val)
        elif name == "projection_bad":
            if d == 1:
                attempt(h.select, 3, 0)
            else:
                attempt(h.projection, d + 2)
        elif name == "collection_mismatch":
            if d != 1:
                continue
            o = physt.h1([0.5], [0, 1, 7])
            attempt(HistogramCollection, h, o)
        elif name == "normalize_empty_copy":
            if np.any(np.asarray(h.frequencies) != 0):
                continue
            attempt(lambda: h.normalize(inplace=True))
        else:
            raise AssertionError(name)
        # ------------------------------------------------ oracle
        after = content_map(h)
        require(after is not None, "malformed", f"{what}: shapes differ after the call")
        if raised is not None:
            a_map, a_missed = after
            b_map, b_missed = before
            require(a_map == b_map, "failed_operation_changed_contents",
                    lambda: f"{what} raised {type(raised).__name__}: {str(raised)[:80]} but contents changed: "
                            f"{ {k_: (b_map.get(k_), a_map.get(k_)) for k_ in set(a_map) | set(b_map) if a_map.get(k_) != b_map.get(k_)} }")
            require(same(a_missed, b_missed), "failed_operation_changed_missed", f"{what} raised {type(raised).__name__} but missed {b_missed} -> {a_missed}")
            ctx.label("raised_" + name)
        else:
            ctx.label("accepted_" + name)
            if name in ("fill_weight_str",):
                pass
        if is_fault:
            faults_seen.append(name)
            if any_valid:
                valid_before_fault = True
            # operations the statement says are refused
            if name in ("isub_larger", "isub_slightly_larger", "imul_negative", "idiv_negative", "iadd_other_dim", "iadd_scalar", "iadd_list", "iadd_str", "imul_list", "imul_hist",
                        "idiv_hist", "set_frequencies_negative", "set_errors2_negative", "set_frequencies_shape", "set_errors2_shape", "iadd_other_bins",
                        "merge_gap", "merge_bad_axis", "index_bad", "projection_bad", "collection_mismatch", "dtype_invalid", "fill_n_wrong_shape", "fill_n_weights_length",
                        "fill_n_weights_after_nan"):
                require(raised is not None, "fault_accepted", f"{what}: the invalid call was accepted")
        else:
            if raised is None:
                any_valid = True
            if name == "fill" and op[2] is not None and op[2] < 0 and raised is None:
                nonneg = False
        invariants(h, what, nonneg)
        for o, kept, since in operands:
            # the operands of earlier operations stay well-formed and keep their contents, whatever happens to h later
            invariants(o, f"operand of {since}, after {what}", True)
            now = content_map(o)
            require(now is not None and now[0] == kept[0] and same(now[1], kept[1]), "operand_changed",
                    lambda: f"operand of {since} changed after {what}: {kept} -> {now}")
        if not nonneg:
            # a negative weight was accepted (legal): contents may be negative from here on, which is
            # outside the property's premise ("with non-negative weights") - end the history
            ctx.label("negative_weight_accepted")
            break
    ctx.label(f"d{d}", "adaptive" if h.is_adaptive() else "fixed", "dtype_" + case["spec"]["dtype"])
    ctx.nt(len(set(faults_seen)) >= 2 and valid_before_fault)


VALID = ["fill", "fill", "fill_n", "iadd", "iadd_grown", "isub_smaller", "imul", "idiv", "merge", "set_dtype"]


@st.composite
def one_op(draw):
    name = draw(st.sampled_from(VALID + FAULTS))
    ts = st.lists(st.sampled_from([0.1, 0.5, 0.9, -0.6, 1.7, 0.0, 0.999]), min_size=3, max_size=3)
    if name == "fill":
        return [name, draw(ts), draw(st.sampled_from([None, None, 2, 0.5, -1]))]
    if name == "fill_n":
        return [name, draw(st.lists(ts, max_size=3))]
    if name == "iadd_grown":
        return [name, draw(st.lists(st.sampled_from([1.7, -0.6, 2.4, -1.3]), min_size=3, max_size=3))]
    if name == "imul":
        # 2**40: the contents still fit into int64, the squared factor does not
        return [name, draw(st.sampled_from([2, 0.5, 3, 2.5, 2, 3, 2 ** 40, 2 ** 70]))]
    if name == "idiv":
        # 2**600: a Python integer that is a valid float, while its square is not
        return [name, draw(st.sampled_from([2, 0.5, 3, 2.5, 2, 4, 2 ** 600]))]
    if name == "merge":
        return [name, draw(st.integers(1, 3))]
    if name == "set_dtype":
        return [name, draw(st.sampled_from(["float64", "float32", "int64"]))]
    if name == "dtype_lossy":
        return [name, draw(st.sampled_from(["int16", "int16", "int8", "int32"]))]
    if name == "dtype_invalid":
        return [name, draw(st.sampled_from(["complex64", "U3", "bool", "datetime64[s]", "object"]))]
    if name == "merge_bad_amount":
        return [name, draw(st.sampled_from([1.5, 2.5, "2", None]))]
    if name == "fill_n_infinite":
        return [name, draw(st.booleans())]
    if name == "fill_n_growth_bad_weights":
        return [name, draw(st.sampled_from(["short", "long", "str", "2d"]))]
    if name == "merge_gap":
        return [name, draw(st.sampled_from([None, "axis_index", "axis_name", "min_frequency"]))]
    if name in ("set_frequencies_negative", "set_errors2_negative"):
        return [name, draw(st.booleans())]
    if name == "fill_weight_huge":
        return [name, draw(st.sampled_from([2 ** 32, 2 ** 62, 1e200]))]
    if name == "merge_bad_axis":
        return [name, draw(st.sampled_from([7, -1, "no_such_axis", 1.5]))]
    return [name]


@st.composite
def histories(draw, tier="quick"):
    adaptive = draw(st.sampled_from([False, False, True]))
    spec = draw(hgen.hist_spec(dims=(1, 1, 2, 3), dtypes=["int64", "float64", "int32", "float32"], max_bins=5, adaptive=adaptive, rich_meta=False,
                               gapped=None if not adaptive else False))
    ops = draw(st.lists(one_op(), min_size=2, max_size=14 if tier == "thorough" else 9))
    if draw(st.integers(0, 3)) == 0:
        # squared errors far larger than the contents (heavy weights): range checks must look at them too
        k = draw(st.sampled_from([3, 500, 40000]))

        def scale(x):
            return [scale(y) for y in x] if isinstance(x, list) else x * k

        spec["err2"] = scale(spec["err2"] if spec["err2"] is not None else spec["freq"])
        ops.insert(draw(st.integers(0, len(ops))), ["dtype_lossy", draw(st.sampled_from(["int16", "int8", "int32"]))])
    elif spec["dtype"] == "int32" and draw(st.integers(0, 2)) == 0:
        # squared errors next to the limit of the narrow type while the contents are small: sums of bins
        # (merging) must look at them too
        big = draw(st.sampled_from([2 ** 30, 2 ** 30 + 12345, 2 ** 31 - 1]))

        def fill_big(x):
            return [fill_big(y) for y in x] if isinstance(x, list) else big

        spec["err2"] = fill_big(spec["freq"])
        ops.insert(draw(st.integers(0, min(2, len(ops)))), ["merge", draw(st.sampled_from([2, 3]))])
    if spec["dtype"] == "int64" and spec["err2"] is None and draw(st.integers(0, 3)) == 0:
        # a content that no float type holds exactly: a refused call must not leave it rounded ("promoted losslessly")
        it = iter([2 ** 53 + 1] + hgen.flat(spec["freq"])[1:])

        def refill(x):
            return [refill(y) for y in x] if isinstance(x, list) else next(it)

        if hgen.flat(spec["freq"]):
            spec["freq"] = refill(spec["freq"])
    if adaptive and draw(st.booleans()):
        # an adaptive operand over another range joins in, and the histogram keeps growing afterwards
        i = draw(st.integers(0, len(ops)))
        ops.insert(i, ["iadd_grown", draw(st.lists(st.sampled_from([1.7, -0.6, 2.4, -1.3]), min_size=3, max_size=3))])
        j = draw(st.integers(i + 1, len(ops)))
        t = draw(st.sampled_from([1.7, -0.6, 2.4, -1.3, 3.5]))
        ops.insert(j, ["fill", [t, t, t], None])
    d = len(spec["axes"])
    if d > 1 and not adaptive and draw(st.integers(0, 2)) == 0:
        # a gap on a later axis: an in-place merge over all axes must fail without touching the earlier ones
        j = draw(st.integers(1, d - 1))
        n = len(spec["axes"][j]["pairs"])
        ps = [[float(i), float(i) + (0.5 if i < n - 1 else 1.0)] for i in range(n)] if n > 1 else [[0.0, 1.0]]
        spec["axes"][j] = {"form": "static", "pairs": ps, "incl": True}
        ops.insert(draw(st.integers(0, len(ops))), ["merge_gap", draw(st.sampled_from([None, "axis_index", "axis_name", "min_frequency"]))])
    return {"spec": spec, "ops": ops}


# ---------------------------------------------------------------------------------
# histograms that start without any bin (adaptive): looked at, then filled


def check_empty_start(case, ctx: Ctx):
    import physt

    d, w = case["d"], case["w"]
    if d == 1:
        h = ctx.call("h1(None, adaptive)", physt.h1, None, "fixed_width", bin_width=w, adaptive=True)
    else:
        h = ctx.call("h2(None, None, adaptive)", physt.h2, None, None, "fixed_width", bin_width=w, adaptive=True)
    entered = []  # (point, weight)
    for k, op in enumerate(case["ops"]):
        name = op[0]
        what = f"step {k} {name}"
        before = content_map(h)
        raised = None
        try:
            if name == "look":
                # reading the bins of the (still empty) histogram is harmless
                for b in h.binnings:
                    {"bins": lambda b=b: b.bins, "numpy_bins": lambda b=b: b.numpy_bins, "bin_count": lambda b=b: b.bin_count,
                     "edges": lambda b=b: (b.first_edge, b.last_edge) if b.bin_count else None}[op[1]]()
                if op[1] == "edges":
                    h.numpy_bins
                if op[1] == "bins":
                    h.bin_sizes if d > 1 else h.bin_widths
            elif name == "fill":
                pt = [x * w for x in op[1][:d]]
                h.fill(pt[0] if d == 1 else pt, *([op[2]] if op[2] is not None else []))
                entered.append((pt, 1 if op[2] is None else op[2]))
            elif name == "fill_n":
                pts = [[x * w for x in t[:d]] for t in op[1]]
                arr = np.array(pts, dtype=float).reshape(len(pts), d)
                h.fill_n(arr[:, 0] if d == 1 else arr)
                entered.extend((pt, 1) for pt in pts)
            elif name == "fill_bad":
                # a point of the wrong dimension
                h.fill([0.5] * (d + 1))
            elif name == "copy_add":
                o = h.copy()
                h = h + o
                entered = entered + entered
        except Exception as exc:  # noqa: BLE001
            raised = exc
        after = content_map(h)
        require(after is not None, "malformed", f"{what}: shapes differ after the call")
        if name == "fill_bad":
            require(raised is not None, "fault_accepted", f"{what}: a point of dimension {d + 1} was accepted")
        elif raised is not None:
            raise Violation("raised:" + type(raised).__name__, f"{what}: {str(raised)[:120]}", "")
        if raised is not None:
            require(after[0] == before[0] and same(after[1], before[1]), "failed_operation_changed_contents", f"{what}: {before} -> {after}")
        invariants(h, what, True)
        # every value entered sits in a bin that contains it, with its weight
        want = {}
        for pt, wt in entered:
            key = tuple((math.floor(x / w + 1e-9) * w, (math.floor(x / w + 1e-9) + 1) * w) for x in pt)
            want[key] = want.get(key, 0) + wt
        got = {tuple((round(a / w), round(b / w)) for a, b in key): v[0] for key, v in after[0].items()}
        want_ = {tuple((round(a / w), round(b / w)) for a, b in key): float(v) for key, v in want.items() if v != 0}
        require(got == want_, "contents_after_growth", f"{what}: bins {got} expected {want_}")
        snap = snapshot(h, stats=False, meta=False)
        require(all(float(x) == 0 for x in np.ravel(np.asarray(snap["missed"], dtype=float))), "missed_after_growth", f"{what}: missed {snap['missed']} in an adaptive histogram")
    ctx.label(f"d{d}", *["op_" + o[0] for o in case["ops"]])
    names = [o[0] for o in case["ops"]]
    ctx.nt("look" in names and any(n in ("fill", "fill_n") for n in names[names.index("look"):]))


@st.composite
def empty_start_cases(draw, tier="quick"):
    ts = st.lists(st.sampled_from([0.5, 1.5, -2.5, 3.25, 0.0, 7.75, -0.25]), min_size=2, max_size=2)

    def one():
        name = draw(st.sampled_from(["look", "look", "fill", "fill", "fill_n", "fill_bad", "copy_add"]))
        if name == "look":
            return [name, draw(st.sampled_from(["bins", "numpy_bins", "bin_count", "edges"]))]
        if name == "fill":
            return [name, draw(ts), draw(st.sampled_from([None, None, 2, 0.5]))]
        if name == "fill_n":
            return [name, draw(st.lists(ts, min_size=0, max_size=3))]
        return [name]

    return {"d": draw(st.sampled_from([1, 1, 2])), "w": draw(st.sampled_from([1.0, 0.5, 2.0, 0.25])),
            "ops": [one() for _ in range(draw(st.integers(1, 6)))]}


FINDINGS = []

SUBS = [
    Sub("history", lambda tier: histories(tier), check_history, quick=1600, thorough=8000),
    Sub("empty_start", lambda tier: empty_start_cases(tier), check_empty_start, quick=300, thorough=2000),
]

RULE += ' Also: operands of earlier steps stay under observation (well-formed, contents unchanged); an adaptive operand over another range (iadd_grown); factors 2**40 / 2**70 / 2**600; subtraction of one ulp more than is there, tiny negative assignments; gap merges through an explicit axis or min_frequency.'
RULE += ' empty_start: adaptive 1-D / 2-D histograms created without data; reading bins / numpy_bins / edges, scalar and array fills, a point of the wrong dimension, adding a copy; every entered value must sit in a bin containing it; non-trivial = a fill after a look.'
