"""C05 — adding histograms equals histogramming the combined data."""
from __future__ import annotations

import functools
import itertools
import math
from fractions import Fraction

import numpy as np
from hypothesis import strategies as st

from pbt import gen, hgen, model
from pbt.core import Ctx, Finding, Sub, Violation, require
from pbt.model import F
from pbt.snap import snapshot, snap_equal, snap_diff

LEVEL = "exploration"
RULE = (
    "Cases: a shared binning (1-3 dims; static/numpy/fixed/pairs) and 2-4 weighted data sets with mixed content "
    "dtypes and metadata; sums in generated orders / parenthesisations / in-place; partitions of one data set into "
    "chunks summed with sum(), HistogramCollection.sum() and dask; adaptive fixed-width pairs on a common grid with "
    "different ranges (also adaptive + fixed); refusal inputs (different edges, dimension, non-histogram operands). "
    "Oracle: exact model of the union of the data over the same bins (Fractions), numpy promotion for dtype, summed "
    "statistics, operand snapshots unchanged. Non-trivial: operands with different ranges (adaptive), different "
    "dtypes or non-zero missed, and at least one value on an edge; or a refusal. distinct = SHA-1 of the case."
)
ASSUMPTIONS = [
    "weights are ints/dyadics so that per-bin sums are exact in every summation order; statistics sums are compared "
    "with the forward bound (n+8)*eps*sum|terms|",
    "allclose-equal but not identical edges are not generated (tolerance semantics of has_same_bins are unspecified)",
]

DTYPES_AFTER = [None, None, "int32", "float32", "float64"]


def _warr(ws):
    return np.array(ws, dtype=np.int64 if all(isinstance(x, int) for x in ws) else np.float64)


def build_from_data(ctx, axes, s, d):
    import physt

    bins = [hgen.build_axis(ax) for ax in axes]
    kw = {}
    if s["weights"] is not None:
        kw["weights"] = _warr(s["weights"])
    meta = s.get("meta") or {}
    if d == 1:
        if "name" in meta:
            kw["name"] = meta["name"]
        if "title" in meta:
            kw["title"] = meta["title"]
        if "axis_names" in meta:
            kw["axis_name"] = meta["axis_names"][0]
        h = ctx.call("h1", physt.h1, np.array(s["data"], dtype=float), bins[0], **kw)
    else:
        if "name" in meta:
            kw["name"] = meta["name"]
        if "title" in meta:
            kw["title"] = meta["title"]
        if "axis_names" in meta:
            kw["axis_names"] = tuple(meta["axis_names"])
        h = ctx.call("h", physt.h, np.array(s["data"], dtype=float).reshape(len(s["data"]), d), bins, **kw)
    if s.get("dtype_after"):
        dt = np.dtype(s["dtype_after"])
        if dt.kind == "f" or h.dtype.kind == "i":
            ctx.call("set_dtype", h.set_dtype, dt)
    return h


def model_of(axes_pairs, incl, sets, d):
    if d == 1:
        data = [v for s in sets for v in s["data"]]
        ws = [w for s in sets for w in (s["weights"] if s["weights"] is not None else [1] * len(s["data"]))]
        return model.hist1d(axes_pairs[0], data, ws)
    rows = [r for s in sets for r in s["data"]]
    ws = [w for s in sets for w in (s["weights"] if s["weights"] is not None else [1] * len(s["data"]))]
    return model.histnd(axes_pairs, incl, rows, ws)


def compare_with_model(ctx, h, axes_pairs, incl, sets, d, what):
    m = model_of(axes_pairs, incl, sets, d)
    shape = tuple(len(p) for p in axes_pairs)
    require(h.frequencies.shape == shape, "shape", what)
    if d == 1:
        for i in range(shape[0]):
            require(F(h.frequencies[i]) == m["freq"][i], "frequency", lambda: f"{what}: bin {i}: {h.frequencies[i]!r} want {float(m['freq'][i])}")
            require(F(h.errors2[i]) == m["err2"][i], "errors2", lambda: f"{what}: bin {i}: {h.errors2[i]!r} want {float(m['err2'][i])}")
        if not model.gaps(axes_pairs[0]):
            require(F(h.underflow) == m["under"] and F(h.overflow) == m["over"], "missed",
                    f"{what}: under/over {h.underflow},{h.overflow} want {float(m['under'])},{float(m['over'])}")
    else:
        for idx in itertools.product(*[range(s) for s in shape]):
            require(F(h.frequencies[idx]) == m["cells"].get(idx, 0), "frequency", lambda: f"{what}: cell {idx}")
            require(F(h.errors2[idx]) == m["cells2"].get(idx, 0), "errors2", lambda: f"{what}: cell {idx}")
        require(F(h.missed) == m["missed"], "missed", f"{what}: {h.missed} want {float(m['missed'])}")
    return m


def stats_of(sets):
    n = 0
    sw = swx = swx2 = Fraction(0)
    ab = ab2 = 0.0
    lo, hi = math.inf, -math.inf
    for s in sets:
        for k, v in enumerate(s["data"]):
            w = F(1 if s["weights"] is None else s["weights"][k])
            sw += w
            swx += w * F(v)
            swx2 += w * F(v) * F(v)
            ab += abs(float(w) * v)
            ab2 += abs(float(w) * v * v)
            lo, hi = min(lo, v), max(hi, v)
            n += 1
    return n, sw, swx, swx2, lo, hi, ab, ab2


def check_stats(ctx, h, sets, what):
    n, sw, swx, swx2, lo, hi, ab, ab2 = stats_of(sets)
    st_ = h.statistics
    g = (n + 8) * 2.0 ** -52
    require(abs(F(st_.weight) - sw) <= Fraction(g * float(sw) + 1e-300), "stat_weight", f"{what}: {st_.weight} vs {float(sw)}")
    require(abs(F(st_.sum) - swx) <= Fraction(g * ab + 1e-300), "stat_sum", f"{what}: {st_.sum} vs {float(swx)}")
    require(abs(F(st_.sum2) - swx2) <= Fraction(g * ab2 + 1e-300), "stat_sum2", f"{what}: {st_.sum2} vs {float(swx2)}")
    if n:
        require(float(st_.min) == lo and float(st_.max) == hi, "stat_minmax", f"{what}: {st_.min},{st_.max} vs {lo},{hi}")


def merged_meta(metas):
    """equal entries survive, differing ones become None (pairwise, left to right)."""
    cur = dict(metas[0])
    for m in metas[1:]:
        keys = set(cur) | set(m)
        cur = {k: (cur.get(k) if cur.get(k) == m.get(k) else None) for k in keys}
    return cur


def check_same_bins(case, ctx: Ctx):
    axes, sets = case["axes"], case["sets"]
    d = len(axes)
    hs = [build_from_data(ctx, axes, s, d) for s in sets]
    before = [snapshot(h) for h in hs]
    axes_pairs = [model.pairs_of(b) for b in (hs[0].bins if d > 1 else [hs[0].bins])]
    incl = [bool(b.includes_right_edge) for b in hs[0].binnings]
    order = case["order"]
    style = case["style"]

    def add(a, b):
        return ctx.call("a + b", lambda: a + b)

    if style == "left":
        total = functools.reduce(add, [hs[i] for i in order])
    elif style == "right":
        seq = [hs[i] for i in order]
        total = seq[-1]
        for x in reversed(seq[:-1]):
            total = add(x, total)
    elif style == "sum":
        total = ctx.call("sum(list)", sum, [hs[i] for i in order])
    else:  # in-place accumulation into a copy
        total = hs[order[0]].copy()
        for i in order[1:]:
            def iadd(t=total, o=hs[i]):
                t += o
                return t
            total = ctx.call("a += b", iadd)
    ctx.label("style_" + style, f"d{d}", f"n{len(sets)}")
    compare_with_model(ctx, total, axes_pairs, incl, sets, d, f"{style} {order}")
    # dtype: numpy promotion of the operand dtypes
    want_dt = functools.reduce(np.promote_types, [hs[i].dtype for i in order])
    require(total.dtype == want_dt == total.frequencies.dtype == total.errors2.dtype, "dtype",
            f"{total.dtype}/{total.frequencies.dtype} vs promote({[str(hs[i].dtype) for i in order]}) = {want_dt}")
    # operands untouched
    for i, h in enumerate(hs):
        if style == "inplace" and False:
            continue
        require(snap_equal(before[i], snapshot(h)), "operand_modified", lambda: f"operand {i}: {snap_diff(before[i], snapshot(h))}")
    # commutativity / associativity on the first two / three
    if len(hs) >= 2:
        ab, ba = add(hs[0], hs[1]), add(hs[1], hs[0])
        require(snap_equal(snapshot(ab, meta=False, stats=False), snapshot(ba, meta=False, stats=False)), "not_commutative",
                lambda: snap_diff(snapshot(ab, meta=False, stats=False), snapshot(ba, meta=False, stats=False)))
    if len(hs) >= 3:
        l, r = add(add(hs[0], hs[1]), hs[2]), add(hs[0], add(hs[1], hs[2]))
        require(snap_equal(snapshot(l, meta=False, stats=False), snapshot(r, meta=False, stats=False)), "not_associative",
                lambda: snap_diff(snapshot(l, meta=False, stats=False), snapshot(r, meta=False, stats=False)))
    if d == 1:
        check_stats(ctx, total, sets, style)
        require(math.isnan(float(total.statistics.median)) or len(sets) == 1, "median_after_add", f"{total.statistics.median}")
    # metadata
    if style in ("left", "sum") and len(order) >= 2:
        metas = [dict(hs[i].meta_data) for i in order]
        want = merged_meta(metas)
        got = dict(total.meta_data)
        for k in ("name", "title"):
            require(got.get(k) == want.get(k), "metadata", f"{k}: {got.get(k)!r} want {want.get(k)!r}")
        wa = want.get("axis_names")
        require(tuple(total.axis_names) == (tuple(wa) if wa else tuple(f"axis{i}" for i in range(d))), "metadata_axis_names",
                f"{total.axis_names} want {wa}")
    dts = {str(h.dtype) for h in hs}
    on_edge = False
    for s in sets:
        for r in s["data"]:
            vals = [r] if d == 1 else r
            if any(v in {e for p in ps for e in p} for v, ps in zip(vals, axes_pairs)):
                on_edge = True
    missed_nz = any((F(b["missed"][0]) != 0 if not math.isnan(b["missed"][0]) else True) or (len(b["missed"]) > 1 and not math.isnan(b["missed"][1]) and b["missed"][1] != 0) for b in before)
    ctx.label("mixed_dtypes" if len(dts) > 1 else "same_dtype")
    ctx.nt((len(dts) > 1 or missed_nz) and on_edge)


@st.composite
def data_set(draw, axes, d, tier):
    n = draw(st.integers(0, 25 if tier == "thorough" else 15))
    if d == 1:
        data = draw(gen.values_for(axes[0]["pairs"], n, n))
    else:
        cols = [draw(gen.values_for(ax["pairs"], n, n)) for ax in axes]
        data = [[cols[j][i] for j in range(d)] for i in range(n)]
    wk = draw(st.sampled_from(["none", "none", "int", "dyadic"]))
    if wk == "none":
        ws = None
    elif wk == "int":
        ws = draw(st.lists(st.integers(0, 6), min_size=n, max_size=n))
    else:
        ws = draw(st.lists(gen.dyadics(64, 2), min_size=n, max_size=n))
    return {"data": data, "weights": ws, "dtype_after": draw(st.sampled_from(DTYPES_AFTER)), "meta": draw(hgen.meta(d, rich=False))}


@st.composite
def same_bins_cases(draw, tier="quick"):
    d = draw(st.sampled_from([1, 1, 2, 3]))
    axes = [draw(hgen.axis(1, 6 if d < 3 else 4, forms=("edges", "pairs", "static", "numpy", "fixed"), gapped=None if d == 1 else False)) for _ in range(d)]
    k = draw(st.integers(2, 4))
    sets = [draw(data_set(axes, d, tier)) for _ in range(k)]
    order = list(draw(st.permutations(list(range(k)))))
    return {"axes": axes, "sets": sets, "order": order, "style": draw(st.sampled_from(["left", "right", "sum", "inplace"]))}


# ---------------------------------------------------------------------------------
# adaptive operands on a common grid


def check_adaptive(case, ctx: Ctx):
    import physt

    ws_ = case["w"]
    d = len(ws_)
    hs = []
    sets = case["sets"]
    for s in sets:
        kw = {"bin_width": ws_[0] if d == 1 else list(ws_), "adaptive": s["adaptive"]}
        if s["weights"] is not None:
            kw["weights"] = _warr(s["weights"])
        if d == 1:
            h = ctx.call("h1 adaptive", physt.h1, np.array(s["data"], dtype=float), "fixed_width", **kw)
        else:
            h = ctx.call("h adaptive", physt.h, np.array(s["data"], dtype=float).reshape(len(s["data"]), d), "fixed_width", **kw)
        hs.append(h)
    before = [snapshot(h) for h in hs]
    order = case["order"]
    left_adaptive = sets[order[0]]["adaptive"]
    all_adaptive = all(s["adaptive"] for s in sets)

    def run():
        if case["style"] == "sum":
            return sum(hs[i] for i in order)
        t = hs[order[0]]
        for i in order[1:]:
            t = t + hs[i]
        return t

    same_bins = all(snapshot(h)["binnings"][0]["bins"] == before[0]["binnings"][0]["bins"] for h in hs) and d == 1
    if not left_adaptive and not same_bins:
        ok, total = ctx.maybe(run)  # extension is only promised for adaptive histograms
        ctx.label("fixed_on_the_left:" + ("accepted" if ok else "refused"))
        if not ok:
            for i, h in enumerate(hs):
                require(snap_equal(before[i], snapshot(h)), "operand_modified", lambda: f"operand {i}: {snap_diff(before[i], snapshot(h))}")
            return
    else:
        total = ctx.call("adaptive sum", run)
    ctx.label("all_adaptive" if all_adaptive else "mixed_adaptive", f"d{d}")
    want_dt = functools.reduce(np.promote_types, [hs[i].dtype for i in order])
    require(total.dtype == want_dt == np.asarray(total.frequencies).dtype == np.asarray(total.errors2).dtype, "dtype",
            f"adaptive sum: {total.dtype}/{np.asarray(total.frequencies).dtype} vs promote({[str(hs[i].dtype) for i in order]}) = {want_dt}")
    axes_pairs = [model.pairs_of(b) for b in (total.bins if d > 1 else [total.bins])]
    m = compare_with_model(ctx, total, axes_pairs, [False] * d, sets, d, "adaptive sum")
    if d == 1:
        require(m["under"] == 0 and m["over"] == 0 and F(total.underflow) == 0 and F(total.overflow) == 0, "lost_in_union",
                f"under/over {total.underflow},{total.overflow}; model {float(m['under'])},{float(m['over'])}")
    else:
        require(m["missed"] == 0 and F(total.missed) == 0, "lost_in_union", f"missed {total.missed}")
    tw = sum((F(1) if s["weights"] is None else F(w)) for s in sets for w in (s["weights"] if s["weights"] is not None else [1] * len(s["data"])))
    require(F(total.total) == tw, "total", f"{total.total} vs {float(tw)}")
    # bins = union range on the common grid
    for j in range(d):
        edges = [p[0] for p in axes_pairs[j]] + [axes_pairs[j][-1][1]]
        lo = min(b["binnings"][j]["bins"][0][0] for b in before if b["binnings"][j]["bins"])
        hi = max(b["binnings"][j]["bins"][-1][1] for b in before if b["binnings"][j]["bins"])
        require(edges[0] == lo and edges[-1] == hi, "union_range", f"axis {j}: [{edges[0]},{edges[-1]}] want [{lo},{hi}]")
        for a, b in zip(edges[:-1], edges[1:]):
            require(abs((b - a) - ws_[j]) <= 1e-9 * ws_[j], "width", f"axis {j}")
    for i, h in enumerate(hs):
        require(snap_equal(before[i], snapshot(h)), "operand_modified", lambda: f"operand {i}: {snap_diff(before[i], snapshot(h))}")
    if d == 1:
        check_stats(ctx, total, sets, "adaptive")
    ranges = {(tuple(b["binnings"][0]["bins"][0]) if b["binnings"][0]["bins"] else None, len(b["binnings"][0]["bins"])) for b in before}
    ctx.nt(len(ranges) > 1)


@st.composite
def adaptive_cases(draw, tier="quick"):
    d = draw(st.sampled_from([1, 1, 2]))
    ws_ = [draw(st.sampled_from([0.5, 1.0, 2.0, 0.25, 0.1, 2.5, 0.3])) for _ in range(d)]
    k = draw(st.integers(2, 3))
    sets = []
    for i in range(k):
        n = draw(st.integers(1, 12))
        off = [draw(st.integers(-15, 15)) for _ in range(d)]
        if d == 1:
            data = [(off[0] + x) * ws_[0] for x in draw(st.lists(st.one_of(st.integers(0, 6).map(float), st.floats(0, 6, allow_nan=False)), min_size=n, max_size=n))]
        else:
            data = [[(off[j] + draw(st.one_of(st.integers(0, 4).map(float), st.floats(0, 4, allow_nan=False)))) * ws_[j] for j in range(d)] for _ in range(n)]
        wk = draw(st.sampled_from(["none", "int", "dyadic"]))
        ws = None if wk == "none" else draw(st.lists(st.integers(0, 5) if wk == "int" else gen.dyadics(64, 2), min_size=n, max_size=n))
        sets.append({"data": data, "weights": ws, "adaptive": draw(st.sampled_from([True, True, True, False]))})
    return {"w": ws_, "sets": sets, "order": list(draw(st.permutations(list(range(k))))), "style": draw(st.sampled_from(["plus", "sum"]))}


# ---------------------------------------------------------------------------------
# partitions: sum over chunks == histogram of everything (lists, collections, dask)


def check_partition(case, ctx: Ctx):
    import physt
    from physt.histogram_collection import HistogramCollection

    ax = case["axis"]
    data = case["data"]
    cuts = sorted(set(c % (len(data) + 1) for c in case["cuts"]))
    bounds = [0] + cuts + [len(data)]
    chunks = [data[a:b] for a, b in zip(bounds[:-1], bounds[1:])]
    via = case["via"]
    ctx.label("via_" + via, f"chunks{min(len(chunks), 6)}")
    if via in ("list", "collection", "collection_add"):
        binning = hgen.build_axis(ax)
        whole = ctx.call("h1(all)", physt.h1, np.array(data, dtype=float), hgen.build_axis(ax))
        parts = [ctx.call("h1(chunk)", physt.h1, np.array(c, dtype=float), hgen.build_axis(ax)) for c in chunks]
        if via == "list":
            total = ctx.call("sum(parts)", sum, parts)
        elif via == "collection_add":
            # a collection that starts empty (binning only) and receives its members one by one
            col = ctx.call("HistogramCollection(binning=)", lambda: HistogramCollection(binning=hgen.build_axis(ax), name="parts"))
            zero = ctx.call("empty collection.sum()", col.sum)
            require(not np.any(np.asarray(zero.frequencies)) and np.asarray(zero.frequencies).shape == np.asarray(whole.frequencies).shape,
                    "empty_collection_sum", f"{np.asarray(zero.frequencies).tolist()}")
            for n_, p_ in enumerate(parts):
                p_.name = f"part{n_}"
                ctx.call("collection.add", col.add, p_)
                require(f"part{n_}" in col and col[f"part{n_}"] is p_ and len(col) == n_ + 1, "collection_membership", f"part{n_}")
            require("no such member" not in col, "collection_membership", "unknown name reported as a member")
            import physt as _p
            stranger = _p.h1([0.5], [0.0, 1.0, 99.0])
            if not (len(whole.bins) == 2 and np.asarray(whole.bins).tolist() == [[0.0, 1.0], [1.0, 99.0]]):
                ctx.refused("collection.add(histogram with other bins)", col.add, stranger)
                require(len(col) == len(parts), "refused_add_changed_collection", "")
            total = ctx.call("collection.sum()", col.sum)
        else:
            col = ctx.call("HistogramCollection", HistogramCollection, *parts)
            total = ctx.call("collection.sum()", col.sum)
        a, b = snapshot(whole, meta=False, stats=False), snapshot(total, meta=False, stats=False)
        require(snap_equal(a, b), "partition_differs", lambda: snap_diff(a, b))
        if len(parts) > 1:
            require(total is not parts[0], "sum_aliases_operand", "")
        check_stats(ctx, total, [{"data": data, "weights": None}], via)
        ctx.nt(len(chunks) >= 3 and any(len(c) == 0 for c in chunks) or len(chunks) >= 3)
    else:
        import dask.array as da
        from physt.compat import dask as pdask

        if len(data) == 0:
            return
        w = case["w"]
        sizes = tuple(len(c) for c in chunks if len(c))
        arr = da.from_array(np.array(data, dtype=float), chunks=(sizes,))
        method = case["dask_method"]
        total = ctx.call("dask h1", pdask.h1, arr, "fixed_width", bin_width=w, dask_method=method)
        whole = ctx.call("h1(all)", physt.h1, np.array(data, dtype=float), "fixed_width", bin_width=w, adaptive=True)
        a, b = snapshot(whole, meta=False, stats=False), snapshot(total, meta=False, stats=False)
        require(snap_equal(a, b), "dask_differs", lambda: snap_diff(a, b))
        require(total.total == len(data), "dask_total", f"{total.total} vs {len(data)}")
        ctx.nt(len(sizes) >= 3)


@st.composite
def partition_cases(draw, tier="quick"):
    via = draw(st.sampled_from(["list", "list", "collection", "collection_add", "dask"]))
    ax = draw(hgen.axis(1, 8, forms=("edges", "static", "numpy", "fixed"), gapped=False))
    n = draw(st.integers(0, 40))
    if via == "dask":
        w = draw(st.sampled_from([0.5, 1.0, 0.25, 0.1, 2.5]))
        data = [x * w for x in draw(st.lists(st.one_of(st.integers(-20, 20).map(float), st.floats(-20, 20, allow_nan=False)), min_size=max(n, 1), max_size=max(n, 1)))]
    else:
        w = None
        data = draw(gen.values_for(ax["pairs"], n, n))
    cuts = draw(st.lists(st.integers(0, 1000), max_size=6))
    return {"axis": ax, "data": data, "cuts": cuts, "via": via, "w": w, "dask_method": draw(st.sampled_from([None, "thread"]))}


# ---------------------------------------------------------------------------------
# refusals


def check_refusals(case, ctx: Ctx):
    import physt
    from physt.config import config

    a = hgen.build(case["a"])
    kind = case["kind"]
    before = snapshot(a)
    ctx.label("refusal_" + kind)
    ctx.nt()
    prelude = case.get("prelude")
    if prelude:
        # a free-arithmetics block that was entered and left earlier (normally, through an exception crossing the
        # context manager, nested): afterwards the mode is off again and everything below must be refused as usual
        class _Boom(Exception):
            pass

        try:
            with config.enable_free_arithmetics():
                if prelude == "nested":
                    with config.enable_free_arithmetics():
                        a + 0
                if prelude in ("exception", "nested"):
                    raise _Boom()
                a + 0
        except _Boom:
            pass
        ctx.label("after_free_block_" + prelude)
        leaked = bool(config.free_arithmetics)
        if leaked:
            config.free_arithmetics = False  # do not let one failing case change the next ones
        require(not leaked, "free_arithmetics_leaked", f"after a block left by {prelude}")
    if kind == "different_edges":
        b = hgen.build(case["b"])
        same = snapshot(a)["binnings"] == snapshot(b)["binnings"]
        if same or a.ndim != b.ndim and False:
            return
        if a.ndim == b.ndim and [x["bins"] for x in snapshot(a)["binnings"]] == [x["bins"] for x in snapshot(b)["binnings"]]:
            return
        if a.is_adaptive():
            return
        sa, sb = snapshot(a)["binnings"], snapshot(b)["binnings"]
        if all(len(x["bins"]) == len(y["bins"]) for x, y in zip(sa, sb)) and all(np.allclose(np.array(x["bins"]), np.array(y["bins"])) for x, y in zip(sa, sb)):
            # physt's notion of "the same bins" is tolerance based (numpy.allclose, rtol 1e-5 of the edge magnitude):
            # such pairs are outside the domain of this refusal (see DESIGN section 7, D30)
            ctx.label("allclose_equal_bins_out_of_domain")
            return
        ctx.refused("a + b with different bins", lambda: a + b)
        ctx.refused("a += b with different bins", a.__iadd__, b)
    elif kind == "gapped_inner_edge":
        # inconsecutive bins that differ in one *inner* right edge only (same left edges, same outer edges)
        b = hgen.build(case["b"])
        ctx.refused("a + b (an inner right edge differs)", lambda: a + b)
        ctx.refused("b + a (an inner right edge differs)", lambda: b + a)
        ctx.refused("a += b (an inner right edge differs)", a.__iadd__, b)
        ctx.refused("sum([a, b])", sum, [a, b])
    elif kind == "adaptive_other_grid":
        # adaptive operands whose grids differ only slightly (width or shift): there is no common grid
        w = case["w"]
        kw_a = {"bin_width": w, "adaptive": True}
        kw_b = {"bin_width": w * (1 + case["dw"]), "adaptive": True}
        if case["dshift"]:
            kw_b["bin_shift"] = w * case["dshift"]
        da_ = [x * w for x in case["xa"]]
        db_ = [(x + 40) * w for x in case["xb"]]
        a = physt.h1(np.array(da_), "fixed_width", **kw_a)
        b = physt.h1(np.array(db_ + [db_[-1] + 3 * w]), "fixed_width", **kw_b)
        before = snapshot(a)
        bb = snapshot(b)
        if a.shape == b.shape:
            return
        ctx.refused("adaptive a + b on different grids", lambda: a + b)
        ctx.refused("adaptive b + a on different grids", lambda: b + a)
        require(snap_equal(bb, snapshot(b)), "refused_but_modified", lambda: snap_diff(bb, snapshot(b)))
    elif kind == "different_ndim":
        b = hgen.build(case["b"])
        if a.ndim == b.ndim:
            return
        ctx.refused("a + b with different ndim", lambda: a + b)
    else:
        operand = {"scalar": 3, "list": np.zeros(a.shape).tolist(), "array": np.ones(a.shape), "str": "x", "none": None}[kind]
        require(not config.free_arithmetics, "free_arithmetics_leaked", "")
        ctx.refused(f"a + {kind}", lambda: a + operand)
        ctx.refused(f"a += {kind}", a.__iadd__, operand)
        if kind not in ("scalar", "array"):
            # (ndarray + histogram is numpy's own __add__ acting on __array__(): out of domain)
            ctx.refused(f"{kind} + a", lambda: operand + a)
    require(snap_equal(before, snapshot(a)), "refused_but_modified", lambda: snap_diff(before, snapshot(a)))


@st.composite
def refusal_cases(draw, tier="quick"):
    kind = draw(st.sampled_from(["different_edges", "different_edges", "different_ndim", "scalar", "list", "array", "str", "none", "adaptive_other_grid", "adaptive_other_grid",
                                 "gapped_inner_edge"]))
    if kind == "gapped_inner_edge":
        n_ = draw(st.integers(2, 5))
        x_, ps_ = float(draw(st.integers(-3, 3))), []
        for _ in range(n_):
            w_ = draw(st.sampled_from([0.5, 1.0, 2.0]))
            ps_.append([x_, x_ + w_])
            x_ += w_ + draw(st.sampled_from([0.5, 1.0]))  # a real gap after every bin
        j_ = draw(st.integers(0, n_ - 2))
        ps_b = [list(p) for p in ps_]
        ps_b[j_][1] = ps_b[j_][0] + (ps_b[j_][1] - ps_b[j_][0]) / 2
        d_ = draw(st.sampled_from([1, 1, 2]))
        def spec_(pairs):
            axes = [{"form": "static", "pairs": pairs, "incl": True}] + ([{"form": "numpy", "pairs": [[0.0, 1.0], [1.0, 2.0]], "incl": True}] if d_ == 2 else [])
            shape = [len(a["pairs"]) for a in axes]
            freq = [1] * shape[0] if d_ == 1 else [[1] * shape[1] for _ in range(shape[0])]
            return {"axes": axes, "dtype": "int64", "freq": freq, "err2": None, "missed": [0, 0, 0] if d_ == 1 else [0], "keep_missed": True, "meta": {}, "adaptive": False}
        return {"kind": kind, "a": spec_(ps_), "b": spec_(ps_b), "prelude": None}
    if kind == "adaptive_other_grid":
        dw, dshift = draw(st.sampled_from([(3e-6, 0), (1e-7, 0), (0, 0.5), (0, 1e-6), (0.5, 0), (1e-9, 0), (0, 0.25)]))
        return {"kind": kind, "a": draw(hgen.hist_spec(dims=(1,), dtypes=["int64"], max_bins=2, adaptive=False, forms=("numpy",), rich_meta=False)),
                "w": draw(st.sampled_from([1.0, 0.1, 1e-9, 2.5, 1e-8, 1e3])), "dw": dw, "dshift": dshift,
                "xa": draw(st.lists(st.floats(0, 5, allow_nan=False), min_size=1, max_size=5)), "xb": draw(st.lists(st.floats(0, 5, allow_nan=False), min_size=1, max_size=5))}
    a = draw(hgen.hist_spec(dims=(1, 2, 3), dtypes=["int64", "float64", "int32"], adaptive=False, forms=("edges", "static", "numpy", "fixed")))
    case = {"kind": kind, "a": a}
    if kind == "different_edges":
        b = draw(hgen.hist_spec(dims=(len(a["axes"]),), dtypes=["int64", "float64"], adaptive=False, forms=("edges", "static", "numpy", "fixed")))
        case["b"] = b
    elif kind == "different_ndim":
        other = [x for x in (1, 2, 3) if x != len(a["axes"])]
        case["b"] = draw(hgen.hist_spec(dims=tuple(other), dtypes=["int64", "float64"], adaptive=False, forms=("edges", "static", "numpy", "fixed")))
    case["prelude"] = draw(st.sampled_from([None, None, "normal", "exception", "nested"]))
    return case


def _is_d01(sub, case, v):
    return (sub == "same_bins" and v.kind == "raised:ValueError" and "NaN to integer" in v.detail
            and len(case["axes"]) == 1 and gen.is_gapped(case["axes"][0]["pairs"]))


FINDINGS = []

SUBS = [
    Sub("same_bins", lambda tier: same_bins_cases(tier), check_same_bins, quick=500, thorough=4000),
    Sub("adaptive", lambda tier: adaptive_cases(tier), check_adaptive, quick=400, thorough=3000),
    Sub("partition", lambda tier: partition_cases(tier), check_partition, quick=250, thorough=1500),
    Sub("refusals", lambda tier: refusal_cases(tier), check_refusals, quick=250, thorough=1500),
]

RULE += ' Also: collections built through add() (empty sum, membership by name, refusal of other bins); refusals after a free-arithmetics block that was left normally / through an exception / nested.'
