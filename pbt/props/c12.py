"""C12 — derived histograms are independent of their sources."""
from __future__ import annotations

import math

import numpy as np
from hypothesis import strategies as st

from pbt import gen, hgen, model
from pbt.core import Ctx, Finding, Sub, Violation, require
from pbt.snap import snapshot, snap_equal, snap_diff

LEVEL = "exploration"
RULE = (
    "A case is a history over a pool of histograms (seeds: 1-D / 2-D / 3-D, adaptive fixed-width or static, "
    "coordinate-transformed classes): derive steps (copy, empty copy, a+b, a-b, a*c, a/c, normalize, merge_bins, "
    "projection, real index/select, T, partial_normalize, accumulate, parse_json(to_json), sum([a]), 0+a, collection "
    "copy / sum / normalize_all) append their result to the pool; mutate steps (fill, fill_n incl. adaptive growth, "
    "*=, /=, +=, dtype change, name/title/axis_names/meta_data edits, in-place merge) change one object. Before every "
    "step the public snapshot of every pool object is taken; after a derive step all operands, and after a mutate "
    "step every object but the mutated one, must be unchanged, and every object well-formed. Non-trivial: a derive "
    "step followed by a mutation of parent or child that changes the bin layout (adaptive growth / in-place merge) or "
    "the dtype. distinct = SHA-1 of the canonical history."
)
ASSUMPTIONS = [
    "nested mutable metadata values, identity selections (h[:]) and arrays/binnings the user passed into a constructor are out of domain",
]


def wellformed(h, what):
    shape = tuple(b.bin_count for b in h.binnings)
    require(tuple(np.asarray(h.frequencies).shape) == shape == tuple(np.asarray(h.errors2).shape), "malformed",
            f"{what}: frequencies {np.asarray(h.frequencies).shape} errors2 {np.asarray(h.errors2).shape} bins {shape}")
    for b in h.binnings:
        require(len(np.asarray(b.bins)) == b.bin_count, "malformed_binning", what)


def is_transformed(h):
    return type(h).__name__ not in ("Histogram1D", "Histogram2D", "HistogramND")


def check_history(case, ctx: Ctx):
    import physt
    from physt.histogram_collection import HistogramCollection
    from physt.io import parse_json

    pool = [ctx.call("build seed", hgen.build, s) for s in case["seeds"]]
    parents = [None] * len(pool)  # index of the object each one was derived from
    derived_then_layout_mutation = False
    layout_ops = 0

    def snaps():
        return [snapshot(h) for h in pool]

    def same_bins(a, b):
        sa, sb = snapshot(a), snapshot(b)
        return [x["bins"] for x in sa["binnings"]] == [x["bins"] for x in sb["binnings"]]

    for k, op in enumerate(case["ops"]):
        name = op[0]
        i = op[1] % len(pool)
        h = pool[i]
        before = snaps()
        new = None
        extra = []
        mutated = None
        what = f"step {k} {name}({i})"
        d = h.ndim
        # ------------------------------------------------------------ derive
        if name == "copy":
            new = ctx.call(what, h.copy)
            require(type(new) is type(h) and new is not h, "copy_type", what)
            a, b = snapshot(new), before[i]
            require(snap_equal(a, b), "copy_differs", lambda: f"{what}: {snap_diff(b, a)}")
            require(bool(new == h), "copy_not_equal", what)
        elif name == "copy_empty":
            new = ctx.call(what, lambda: h.copy(include_frequencies=False))
            require(type(new) is type(h), "copy_type", what)
            require(not np.any(np.asarray(new.frequencies)) and not np.any(np.asarray(new.errors2)), "empty_copy_not_empty", what)
            require(same_bins(new, h) and new.dtype == h.dtype, "empty_copy_bins", what)
            if not is_transformed(new):
                # fully usable: accepts fill and fill_n
                c2 = new.copy(include_frequencies=False) if False else new
                ps = model.pairs_of(np.asarray(h.binnings[0].bins)) if h.binnings[0].bin_count else None
                if ps:
                    mid = [float((b.bins[0][0] + b.bins[0][1]) / 2) for b in h.binnings]
                    ctx.call(what + " fill", new.fill, mid[0] if d == 1 else mid)
                    ctx.call(what + " fill_n", new.fill_n, np.array([mid[0]]) if d == 1 else np.array([mid]))
                    require(float(new.total) == 2, "empty_copy_unusable", f"{what}: total {new.total}")
        elif name == "add":
            j = op[2] % len(pool)
            o = pool[j]
            if o.ndim != d or not (same_bins(h, o) or h.is_adaptive()):
                continue
            ok, new = ctx.maybe(lambda: h + o)
            if not ok:
                new = None
        elif name == "add_grown":
            # adaptive operands over different ranges: the right operand is a histogram of its own, kept under observation
            if not h.is_adaptive() or is_transformed(h) or any(b.bin_count == 0 for b in h.binnings):
                continue
            o, p = h.copy(), h.copy()
            pt, qt = [], []
            for ax_i, b in enumerate(h.binnings):
                lo, hi = float(b.bins[0][0]), float(b.bins[-1][1])
                t = op[2][ax_i % len(op[2])]
                pt.append(lo + (hi - lo) * t)
                qt.append(lo + (hi - lo) * (1.0 - t))  # on the other side
            # two copies grown in opposite directions: neither range contains the other
            ctx.call(what + " grow the right operand", o.fill, pt[0] if d == 1 else pt)
            ctx.call(what + " grow the left operand", p.fill, qt[0] if d == 1 else qt)
            extra += [o, p]
            o_before = snapshot(o)
            # (histograms that carry missed values legitimately refuse to adapt)
            if op[3]:
                ok, new = ctx.maybe(lambda: p + o)
                if not ok:
                    new = None
            else:
                def g2(pp=p, oo=o):
                    pp += oo
                ctx.maybe(g2)
            require(snap_equal(o_before, snapshot(o)), "operand_modified", lambda: f"{what}: right operand changed: {snap_diff(o_before, snapshot(o))}")
            ctx.label("add_grown")
        elif name == "sub":
            o = h.copy()
            new = ctx.call(what, lambda: h - o)
        elif name == "mul":
            new = ctx.call(what, lambda: h * op[2])
        elif name == "rmul":
            new = ctx.call(what, lambda: op[2] * h)
        elif name == "div":
            new = ctx.call(what, lambda: h / op[2])
        elif name == "normalize":
            if not float(h.total) > 0 or not np.all(np.isfinite(np.asarray(h.frequencies, dtype=float))):
                continue
            new = ctx.call(what, h.normalize)
        elif name == "merge":
            ok, new = ctx.maybe(h.merge_bins, op[2])
            if not ok:
                new = None
        elif name == "projection":
            if d < 2:
                continue
            axes = sorted({a % d for a in op[2]})
            if len(axes) >= d:
                axes = axes[:-1]
            new = ctx.call(what, h.projection, *axes)
        elif name == "index":
            n0 = h.binnings[0].bin_count
            if n0 < 2:
                continue
            a, b = sorted([op[2] % n0, op[3] % (n0 + 1)])
            if b - a >= n0 or a >= b:
                a, b = 0, n0 - 1
            if a >= b:
                continue
            new = ctx.call(what, lambda: h[a:b])
        elif name == "select_int":
            if d < 2:
                continue
            ax = op[2] % d
            idx = op[3] % h.binnings[ax].bin_count if h.binnings[ax].bin_count else None
            if idx is None:
                continue
            new = ctx.call(what, h.select, ax, idx)
        elif name == "T":
            if type(h).__name__ != "Histogram2D":
                continue
            new = ctx.call(what, lambda: h.T)
        elif name == "partial_normalize":
            if type(h).__name__ != "Histogram2D":
                continue
            new = ctx.call(what, h.partial_normalize, op[2] % 2)
        elif name == "accumulate":
            if d < 2:
                continue
            new = ctx.call(what, h.accumulate, op[2] % d)
        elif name == "json":
            if str(h.dtype) == "float128":
                continue
            new = ctx.call(what, lambda: parse_json(h.to_json()))
        elif name == "sum1":
            new = ctx.call(what, sum, [h])
            require(new is not h, "sum_aliases_operand", what)
        elif name == "radd0":
            new = ctx.call(what, lambda: 0 + h)
            require(new is not h, "radd_aliases_operand", what)
        elif name in ("collection_copy", "collection_sum", "collection_normalize_all", "collection_create"):
            if type(h).__name__ != "Histogram1D":
                continue
            sibling = h.copy()
            col = ctx.call(what, HistogramCollection, h, sibling)
            if name == "collection_copy":
                members = ctx.call(what, col.copy).histograms
                new = members[0]
                extra.append(members[1])  # the copied members must be independent of one another as well
            elif name == "collection_create":
                if any(b.bin_count == 0 for b in h.binnings):
                    continue
                b0 = h.binnings[0]
                lo, hi = float(b0.bins[0][0]), float(b0.bins[-1][1])
                vals = [lo + (hi - lo) * t for t in op[2]] if h.is_adaptive() else [lo + (hi - lo) * min(max(t, 0.0), 0.99) for t in op[2]]
                new = ctx.call(what, col.create, "made", np.array(vals))
                require(float(new.total) == len(vals), "collection_create_total", f"{what}: total {new.total} for {len(vals)} values")
            elif name == "collection_sum":
                new = ctx.call(what, col.sum)
            else:
                if not float(h.total) > 0:
                    continue
                new = ctx.call(what, col.normalize_all).histograms[0]
            require(new is not h, "collection_aliases_member", what)
        # ------------------------------------------------------------ mutate
        elif name in ("fill", "fill_n"):
            if is_transformed(h) or any(b.bin_count == 0 for b in h.binnings) and not h.is_adaptive():
                continue
            pt = []
            for ax_i, b in enumerate(h.binnings):
                if b.bin_count == 0:
                    pt.append(float(op[2][ax_i % len(op[2])]))
                    continue
                lo, hi = float(b.bins[0][0]), float(b.bins[-1][1])
                t = op[2][ax_i % len(op[2])]
                pt.append(lo + (hi - lo) * t)  # t in [-1.5, 2.5]: also outside -> adaptive growth
            grows = h.is_adaptive() and any(not (float(b.bins[0][0]) <= v < float(b.bins[-1][1])) for v, b in zip(pt, h.binnings) if b.bin_count)
            f0, e0 = float(np.asarray(h.frequencies, dtype=float).sum()), float(np.asarray(h.errors2, dtype=float).sum())
            m0 = float(h.missed) if hasattr(h, "missed") else float("nan")
            dt0 = h.dtype  # (sums taken in a narrow float type carry that type's rounding: only wide starts are compared)
            if name == "fill":
                ctx.call(what, h.fill, pt[0] if d == 1 else pt)
                entered = 1
            else:
                ctx.call(what, h.fill_n, np.array([pt[0], pt[0]]) if d == 1 else np.array([pt, pt]))
                entered = 2
            # the filled object books every unit-weight entry once: in the contents and in the squared errors alike
            f1, e1 = float(np.asarray(h.frequencies, dtype=float).sum()), float(np.asarray(h.errors2, dtype=float).sum())
            m1 = float(h.missed) if hasattr(h, "missed") else float("nan")
            if (dt0.kind in "iu" or dt0 == np.float64) and (h.dtype.kind in "iu" or h.dtype == np.float64) and all(math.isfinite(x) for x in (f0, e0, f1, e1)) and max(abs(f0), abs(e0)) < 2 ** 40:
                if True:
                    require(abs((f1 - f0) - (e1 - e0)) <= 1e-6 * max(1.0, abs(f0), abs(e0)), "fill_booked_unevenly",
                            lambda: f"{what}: contents grew by {f1 - f0}, squared errors by {e1 - e0}")
                    if math.isfinite(m0) and math.isfinite(m1) and h.keep_missed:
                        require(abs((f1 - f0) + (m1 - m0) - entered) <= 1e-6 * max(1.0, abs(f0)), "fill_booked_wrongly",
                                lambda: f"{what}: {entered} entries, contents grew by {f1 - f0}, missed by {m1 - m0}")
            mutated = i
            if grows:
                layout_ops += 1
                ctx.label("adaptive_growth")
        elif name in ("imul", "idiv"):
            def f(hh=h, c=op[2], nm=name):
                if nm == "imul":
                    hh *= c
                else:
                    hh /= c
            ctx.call(what, f)
            mutated = i
        elif name == "iadd":
            o = h.copy()
            def g(hh=h, oo=o):
                hh += oo
            ctx.call(what, g)
            mutated = i
        elif name == "set_dtype":
            ok, _ = ctx.maybe(h.set_dtype, op[2])
            mutated = i
            if ok:
                layout_ops += 1
        elif name == "rename":
            h.name = op[2]
            h.title = op[2] + "!"
            mutated = i
        elif name == "axis_names":
            h.axis_names = tuple(f"{op[2]}{q}" for q in range(d))
            mutated = i
        elif name == "meta":
            h.meta_data[op[2]] = op[3]
            mutated = i
        elif name == "merge_inplace":
            ok, _ = ctx.maybe(lambda: h.merge_bins(op[2], inplace=True))
            mutated = i
            if ok and op[2] > 1:
                layout_ops += 1
                ctx.label("inplace_merge")
            if not ok and d > 1:
                # a refused N-D in-place merge may be half applied (recorded under C18); stop using this object
                ctx.label("nd_inplace_merge_refused")
                return
        else:
            raise AssertionError(name)
        # ------------------------------------------------------------ invariants
        after = snaps()
        for j in range(len(pool)):
            if j == mutated:
                continue
            require(snap_equal(before[j], after[j]), "other_object_changed",
                    lambda: f"{what}: object {j} (derived from {parents[j]}) changed: {snap_diff(before[j], after[j])}")
        for j, obj in enumerate(pool):
            wellformed(obj, f"{what}: object {j}")
        if new is not None and not isinstance(new, tuple):
            wellformed(new, f"{what}: result")
            for j, obj in enumerate(pool):
                require(new is not obj, "result_is_operand", f"{what}: result is pool object {j}")
            pool.append(new)
            parents.append(i)
            ctx.label("derive_" + name)
        for x in extra:
            wellformed(x, f"{what}: second object")
            pool.append(x)
            parents.append(i)
        if mutated is not None:
            ctx.label("mutate_" + name)
            related = parents[mutated] is not None or any(p == mutated for p in parents)
            if related and name in ("fill", "fill_n", "set_dtype", "merge_inplace") and layout_ops:
                derived_then_layout_mutation = True
    ctx.nt(derived_then_layout_mutation)


DERIVE = ["copy", "copy_empty", "add", "add_grown", "add_grown", "sub", "mul", "rmul", "div", "normalize", "merge", "projection", "index", "select_int", "T",
          "partial_normalize", "accumulate", "json", "sum1", "radd0", "collection_copy", "collection_copy", "collection_sum", "collection_normalize_all",
          "collection_create"]
MUTATE = ["fill", "fill", "fill_n", "imul", "idiv", "iadd", "set_dtype", "rename", "axis_names", "meta", "merge_inplace"]


@st.composite
def one_op(draw):
    name = draw(st.sampled_from(DERIVE + MUTATE + MUTATE + ["fill", "fill_n", "index", "select_int", "projection"]))
    # -1 / -2 address the most recently derived objects: derive-then-mutate pairs are what matters
    i = draw(st.sampled_from([-1, -1, -1, -2, -2, 0, 0, 1, 2, 3]))
    if name == "add":
        return [name, i, draw(st.integers(0, 7))]
    if name in ("mul", "rmul", "div", "imul", "idiv"):
        return [name, i, draw(st.sampled_from([2, 0.5, 3, 2.5, 4]))]
    if name in ("merge", "merge_inplace"):
        return [name, i, draw(st.integers(1, 3))]
    if name == "projection":
        return [name, i, draw(st.lists(st.integers(0, 3), min_size=1, max_size=2))]
    if name in ("index", "select_int"):
        return [name, i, draw(st.integers(0, 9)), draw(st.integers(0, 9))]
    if name in ("partial_normalize", "accumulate"):
        return [name, i, draw(st.integers(0, 3))]
    if name == "add_grown":
        return [name, i, draw(st.lists(st.sampled_from([1.6, 2.4, -0.7, -1.5]), min_size=3, max_size=3)), draw(st.booleans())]
    if name == "collection_create":
        return [name, i, draw(st.lists(st.sampled_from([0.1, 0.5, 0.9, -0.7, 1.6, 2.4, 0.0]), min_size=1, max_size=4))]
    if name in ("fill", "fill_n"):
        return [name, i, draw(st.lists(st.sampled_from([0.1, 0.5, 0.9, -0.7, 1.6, 2.4, -1.5, 0.0, 1.0]), min_size=3, max_size=3))]
    if name == "set_dtype":
        return [name, i, draw(st.sampled_from(["float64", "float32", "int64", "int32", "float16"]))]
    if name in ("rename", "axis_names"):
        return [name, i, draw(st.sampled_from(["n", "other", "x"]))]
    if name == "meta":
        return [name, i, draw(st.sampled_from(["unit", "run", "title"])), draw(st.sampled_from([1, "s", None]))]
    return [name, i]


@st.composite
def histories(draw, tier="quick"):
    k = draw(st.integers(1, 3))
    seeds = []
    for _ in range(k):
        kind = draw(st.sampled_from(["adaptive", "adaptive", "plain", "plain", "transformed"]))
        if kind == "adaptive":
            s = draw(hgen.hist_spec(dims=(1, 1, 2, 3), dtypes=["int64", "float64", "int32"], max_bins=4, adaptive=True, rich_meta=False))
        elif kind == "plain":
            s = draw(hgen.hist_spec(dims=(1, 1, 2, 3), dtypes=["int64", "float64", "int32", "float32"], max_bins=5, adaptive=False, gapped=False, rich_meta=False))
        else:
            s = draw(hgen.hist_spec(dims=(1, 2, 3), dtypes=["int64", "float64"], max_bins=4, adaptive=False, gapped=False, rich_meta=False,
                                    forms=("numpy", "static")))
            s["class"] = draw(st.sampled_from([c for c in hgen.CLASSES_BY_DIM[len(s["axes"])] if c not in ("Histogram1D", "Histogram2D", "HistogramND")]))
        seeds.append(s)
    ops = draw(st.lists(one_op(), min_size=2, max_size=14 if tier == "thorough" else 8))
    return {"seeds": seeds, "ops": ops}


FINDINGS = []

SUBS = [
    Sub("history", lambda tier: histories(tier), check_history, quick=2400, thorough=6000),
]

RULE += ' Also: multi-member collection copies (every copied member observed), collection.create, sums of two copies grown in opposite directions (add_grown).'
