"""C13 — content dtype is consistent and never loses information."""
from __future__ import annotations

import itertools
import math
from fractions import Fraction

import numpy as np
from hypothesis import strategies as st

from pbt import gen, hgen, model
from pbt.core import Ctx, Finding, Sub, Violation, require
from pbt.model import F
from pbt.snap import snapshot, snap_equal, snap_diff

LEVEL = "exploration"
RULE = (
    "A case is an operation history on a 1-D or 2-D histogram that starts in one of the seven supported dtypes "
    "(int16/32/64, float16/32/64/128): fill / fill_n with no, int or float (dyadic) weights, +, -, +=, -= with "
    "histograms of other dtypes, * and / (and in-place forms) by python / numpy int and float scalars, normalize, "
    "merge_bins, slicing, set_dtype / dtype= towards every type with values chosen integral or not and inside or "
    "outside the target range, and construction with explicit dtype x weight kinds. After every step the reported "
    "dtype must be the element type of frequencies and errors2; values are tracked exactly (Fractions) so truncation "
    "shows; histogram-histogram arithmetic must use numpy.promote_types; set_dtype must be accepted iff the documented "
    "condition holds and change nothing otherwise. Non-trivial: >= 2 dtype-changing steps of different kinds, or a "
    "refused conversion. distinct = SHA-1 of the canonical history."
)
ASSUMPTIONS = [
    "weights and factors are dyadic rationals so that every intermediate value is exact in float32/float64; float16 "
    "results are compared with 2^-10 relative tolerance",
    "unsigned/bool/complex dtypes and the range of the missed counters on conversion are out of domain",
]

DTYPES = ["int16", "int32", "int64", "float16", "float32", "float64", "float128"]
TARGETS = DTYPES + ["int8"]


def Fx(x) -> Fraction:
    try:
        return Fraction(int(x)) if isinstance(x, (int, np.integer)) else Fraction(float(x))
    except (OverflowError, ValueError):
        return Fraction(0)


def scalar_of(s):
    kind, v = s
    return {"int": int, "float": float, "np_int64": np.int64, "np_int16": np.int16, "np_float64": np.float64, "np_float32": np.float32}[kind](v)


class Model:
    """Exact contents plus the dtype *constraints* the property states."""

    def __init__(self, h):
        self.freq = [Fx(x) for x in np.asarray(h.frequencies).ravel()]
        self.err2 = [Fx(x) for x in np.asarray(h.errors2).ravel()]
        self.exact = True

    def compare(self, h, what):
        if not self.exact:
            return
        f = np.asarray(h.frequencies).ravel()
        e = np.asarray(h.errors2).ravel()
        require(len(f) == len(self.freq), "shape", what)
        # float16 / float32 round large sums: compare those with a few ulps, everything else exactly
        rel = Fraction(2) ** -9 if h.dtype == np.float16 else (Fraction(2) ** -21 if h.dtype == np.float32 else Fraction(0))
        for i in range(len(f)):
            for got, want, nm in ((f[i], self.freq[i], "frequency"), (e[i], self.err2[i], "errors2")):
                if rel and math.isinf(float(got)) and abs(want) >= Fraction(float(np.finfo(h.dtype).max)) * (1 - rel):
                    # a sum that left the range of the narrow float type the histogram was put into (float16: 65504):
                    # overflow within the chosen type, as for the integer types - the history ends here
                    return True
                g = Fx(got)
                ok = g == want if rel == 0 else abs(g - want) <= rel * abs(want)
                require(ok and not math.isnan(float(got)), "value_" + nm, lambda: f"{what}: entry {i}: {got!r} want {float(want)!r} (dtype {h.dtype})")
        if rel:
            # re-base on what the narrow float type actually holds (its rounding is legitimate)
            self.freq = [Fx(x) for x in f]
            self.err2 = [Fx(x) for x in e]


def consistent(h, what):
    require(h.dtype == np.asarray(h.frequencies).dtype == np.asarray(h.errors2).dtype, "dtype_inconsistent",
            f"{what}: dtype {h.dtype} frequencies {np.asarray(h.frequencies).dtype} errors2 {np.asarray(h.errors2).dtype}")
    require(h.dtype.name in TARGETS, "unsupported_dtype", f"{what}: {h.dtype}")


def conversion_allowed(h, target: np.dtype) -> bool:
    """The documented rule, evaluated on the actual contents with exact arithmetic."""
    vals = [Fx(x) for x in np.asarray(h.frequencies).ravel()] + [Fx(x) for x in np.asarray(h.errors2).ravel()]
    if target.kind == "i":
        info = np.iinfo(target)
        if h.dtype.kind == "f" and any(v.denominator != 1 for v in vals):
            return False
        return all(info.min <= v <= info.max for v in vals)
    if target.itemsize >= 8:
        return True  # float64 / float128 hold every value a supported dtype can carry
    info = np.finfo(target)
    return all(abs(v) <= Fx(info.max) for v in vals)


def bins_midpoints(h):
    return [[float((l + r) / 2) for l, r in np.asarray(b.bins)] for b in h.binnings]


def check_history(case, ctx: Ctx):
    from physt.histogram1d import Histogram1D

    h = ctx.call("build", hgen.build, case["spec"])
    consistent(h, "after construction")
    m = Model(h)
    d = h.ndim
    kinds = set()
    refused = False
    shape = tuple(np.asarray(h.frequencies).shape)

    def cell_index(ts):
        idx = tuple(int(t * shape[a]) % shape[a] for a, t in zip(range(d), ts))
        flat = int(np.ravel_multi_index(idx, shape))
        mids = bins_midpoints(h)
        pt = [mids[a][idx[a]] for a in range(d)]
        return flat, (pt[0] if d == 1 else pt)

    def other_hist(dtype, zero):
        spec = dict(case["spec"])
        spec = {**spec, "dtype": dtype, "err2": None, "missed": [0, 0, 0] if d == 1 else [0], "meta": {}}
        n = int(np.prod(shape))
        vals = [0] * n if zero else [(i % 3) + 1 for i in range(n)]
        arr = np.array(vals, dtype=dtype).reshape(shape)
        spec["freq"] = arr.tolist()
        spec["axes"] = [{"form": "pairs", "pairs": np.asarray(b.bins, dtype=float).tolist(), "incl": True} for b in h.binnings]
        return hgen.build(spec), [Fraction(v) for v in vals]

    for k, op in enumerate(case["ops"]):
        name = op[0]
        what = f"step {k} {name}"
        before_dtype = h.dtype
        before = snapshot(h)
        if 0 in shape:
            break
        if name == "fill":
            flat, pt = cell_index(op[1])
            w = op[2]
            if w is not None and len(op) > 3 and op[3] == "np_int8" and w > 127:
                w = 100  # (does not fit into the scalar type itself)
            if w == 300 and not (len(op) > 3 and op[3] in ("np_float16", "np_float32") and before_dtype != np.float16):
                w = 2  # (300 is for narrow float scalars whose square leaves float16, booked into a wider histogram)
            if w is not None and len(op) > 3 and op[3]:
                # the weight as a numpy scalar of another width (as when looping over a float32 / int16 weights array)
                w = {"np_float32": np.float32, "np_float16": np.float16, "np_float64": np.float64, "np_longdouble": np.longdouble,
                     "np_int32": np.int32, "np_int16": np.int16, "np_int8": np.int8}[op[3]](w) if not (op[3].startswith("np_int") and not float(w).is_integer()) else w
                ctx.label("fill_weight_" + type(w).__name__)
            if w is None:
                ctx.call(what, h.fill, pt)
                wv = Fraction(1)
            else:
                ctx.call(what, h.fill, pt, w)
                wv = Fx(w)
            m.freq[flat] += wv
            m.err2[flat] += wv * wv
            if w is None or isinstance(w, (int, np.integer)):
                if before_dtype.kind == "i":
                    require(h.dtype.kind == "i", "unweighted_fill_left_integer_types", f"{what}: {before_dtype} -> {h.dtype}")
                kinds.add("fill_int")
            else:
                require(h.dtype.kind == "f", "float_weight_truncated", f"{what}: weight {w!r}: {before_dtype} -> {h.dtype}")
                kinds.add("fill_float")
        elif name == "fill_n":
            pts, wk = op[1], op[2]
            cells = [cell_index(t) for t in pts]
            arr = np.array([c[1] for c in cells], dtype=float).reshape(len(cells), d)
            if d == 1:
                arr = arr.ravel()
            if wk == "none":
                ctx.call(what, h.fill_n, arr)
                ws = [Fraction(1)] * len(cells)
            elif wk == "int":
                ws_ = [(i % 3) + 1 for i in range(len(cells))]
                ctx.call(what, h.fill_n, arr, np.array(ws_, dtype=np.int64))
                ws = [Fraction(x) for x in ws_]
            elif wk == "float16" and before_dtype != np.float16:
                # weights in a narrow float type whose squares leave that type (the histogram's own type has the room)
                ws_ = [[300.0, 0.5, 1024.0][i % 3] for i in range(len(cells))]
                ctx.call(what, h.fill_n, arr, np.array(ws_, dtype=np.float16))
                ws = [Fx(x) for x in ws_]
                ctx.label("fill_n_float16_weights")
            else:
                ws_ = [0.5 + 0.25 * (i % 3) for i in range(len(cells))]
                ctx.call(what, h.fill_n, arr, np.array(ws_, dtype=np.float64))
                ws = [Fx(x) for x in ws_]
            for (flat, _), wv in zip(cells, ws):
                m.freq[flat] += wv
                m.err2[flat] += wv * wv
            if len(cells):
                if wk in ("none", "int"):
                    if before_dtype.kind == "i":
                        require(h.dtype.kind == "i", "unweighted_fill_left_integer_types", f"{what}: {before_dtype} -> {h.dtype}")
                    kinds.add("fill_int")
                else:
                    require(h.dtype.kind == "f", "float_weight_truncated", f"{what}: {before_dtype} -> {h.dtype}")
                    kinds.add("fill_float")
        elif name in ("add", "iadd", "sub", "isub"):
            o, ovals = ctx.call(what + " operand", other_hist, op[1], name in ("sub", "isub"))
            want_dt = np.promote_types(before_dtype, o.dtype)
            if name == "add":
                h = ctx.call(what, lambda: h + o)
            elif name == "sub":
                h = ctx.call(what, lambda: h - o)
            elif name == "iadd":
                def f(hh=h):
                    hh += o
                    return hh
                h = ctx.call(what, f)
            else:
                def f(hh=h):
                    hh -= o
                    return hh
                h = ctx.call(what, f)
            require(h.dtype == want_dt, "not_numpy_promotion", f"{what}: {before_dtype} op {o.dtype} -> {h.dtype}, numpy promotes to {want_dt}")
            if name in ("add", "iadd"):
                for i, v in enumerate(ovals):
                    m.freq[i] += v
                    m.err2[i] += v
            kinds.add("hist_arith")
        elif name == "add_shifted":
            # adaptive histograms: the other operand lives on the same grid but over a shifted range
            if not h.is_adaptive() or d != 1:
                continue
            from physt.binnings import FixedWidthBinning
            from physt.histogram1d import Histogram1D as H1

            b0 = h.binnings[0]
            ob = FixedWidthBinning(bin_width=b0.bin_width, bin_count=2, bin_times_min=b0._times_min + op[2], bin_shift=b0._shift, adaptive=True)
            o = H1(ob, np.array([1, 2], dtype=op[1]), dtype=np.dtype(op[1]))
            want_dt = np.promote_types(before_dtype, o.dtype)
            if op[3]:
                def f(hh=h):
                    hh += o
                    return hh
                h = ctx.call(what + " +=", f)
            else:
                h = ctx.call(what, lambda: h + o)
            require(h.dtype == want_dt, "not_numpy_promotion", f"{what}: adaptive {before_dtype} + {o.dtype} -> {h.dtype}, numpy promotes to {want_dt}")
            shape = tuple(np.asarray(h.frequencies).shape)
            ex = m.exact
            consistent(h, what)
            m = Model(h)
            m.exact = ex
            kinds.add("hist_arith")
            ctx.label("adaptive_shifted_add")
        elif name in ("mul", "imul", "div", "idiv"):
            c = scalar_of(op[1])
            fc = Fx(c)
            if name == "mul":
                h = ctx.call(what, lambda: h * c)
            elif name == "div":
                h = ctx.call(what, lambda: h / c)
            elif name == "imul":
                def f(hh=h):
                    hh *= c
                    return hh
                h = ctx.call(what, f)
            else:
                def f(hh=h):
                    hh /= c
                    return hh
                h = ctx.call(what, f)
            if name in ("mul", "imul"):
                m.freq = [v * fc for v in m.freq]
                m.err2 = [v * fc * fc for v in m.err2]
                if isinstance(c, (float, np.floating)):
                    require(h.dtype.kind == "f", "float_factor_truncated", f"{what}: {before_dtype} * {c!r} -> {h.dtype}")
                    kinds.add("scale_float")
                else:
                    kinds.add("scale_int")
            else:
                m.freq = [v / fc for v in m.freq]
                m.err2 = [v / fc / fc for v in m.err2]
                require(h.dtype.kind == "f", "division_truncated", f"{what}: {before_dtype} / {c!r} -> {h.dtype}")
                kinds.add("divide")
        elif name == "normalize":
            if not float(h.total) > 0:
                continue
            h = ctx.call(what, lambda: h.normalize(inplace=op[1]))
            require(h.dtype.kind == "f", "normalize_truncated", f"{what}: {before_dtype} -> {h.dtype}")
            tot = sum(m.freq, Fraction(0))
            m.exact = False
            kinds.add("normalize")
        elif name == "merge":
            h2 = ctx.call(what, h.merge_bins, 2, axis=0)
            require(h2.dtype == before_dtype, "merge_changed_dtype", f"{what}: {before_dtype} -> {h2.dtype}")
            h = h2
            shape = tuple(np.asarray(h.frequencies).shape)
            if h.dtype.kind == "f" and h.dtype.itemsize < 8 and not (np.all(np.isfinite(h.frequencies)) and np.all(np.isfinite(h.errors2))) \
                    and all(math.isfinite(float(x)) for x in hgen.flat(before["frequencies"]) + hgen.flat(before["errors2"])):
                # sums of bins that left the range of the narrow float type the histogram was put into (float16: 65504):
                # overflow within the chosen type, as for the integer types - the history ends here
                ctx.label("narrow_float_overflow")
                break
            m = Model(h) if m.exact else m
            if not m.exact:
                m = Model(h)
                m.exact = False
        elif name == "slice":
            n0 = shape[0]
            if n0 < 2:
                continue
            h2 = ctx.call(what, lambda: h[0 : n0 - 1])
            require(h2.dtype == before_dtype, "slice_changed_dtype", f"{what}: {before_dtype} -> {h2.dtype}")
            h = h2
            shape = tuple(np.asarray(h.frequencies).shape)
            ex = m.exact
            m = Model(h)
            m.exact = ex
        elif name == "assign":
            # public assignment h.frequencies = ... / h.errors2 = ... with an array of another element type
            attr, adt, vk = op[1], op[2], op[3]
            n = int(np.prod(shape))
            vals = {"ints": [(i % 3) + 1 for i in range(n)], "halves": [0.5 + i for i in range(n)], "big": [40000 + i for i in range(n)]}[vk]
            if adt == "list":
                new = np.array(vals).reshape(shape).tolist()
            else:
                if np.dtype(adt).kind == "i" and vk == "halves":
                    vals = [int(v + 0.5) for v in vals]
                if vk == "big" and adt in ("int16", "float16"):
                    vals = [300 + i for i in range(n)]
                new = np.array(vals, dtype=adt).reshape(shape)
            ok, exc = ctx.maybe(setattr, h, attr, new)
            if ok:
                # accepted: nothing of what was assigned may be lost (the dtype is promoted as needed)
                tgt = m.freq if attr == "frequencies" else m.err2
                tgt[:] = [Fx(v) for v in vals]
                kinds.add("assign")
                ctx.label("assign_" + attr)
            else:
                after = snapshot(h)
                require(snap_equal(before, after), "refused_assignment_changed_something", lambda: snap_diff(before, after))
                ctx.label("assign_refused")
        elif name == "set_dtype":
            target = np.dtype(op[1])
            allowed = conversion_allowed(h, target)
            if op[2] == "method":
                call = lambda: h.set_dtype(target)  # noqa: E731
            elif op[2] == "string":
                call = lambda: h.set_dtype(op[1])  # noqa: E731
            else:
                call = lambda: setattr(h, "dtype", target)  # noqa: E731
            if allowed:
                ctx.call(what + f" -> {target}", call)
                require(h.dtype == target, "set_dtype_ignored", f"{what}: {h.dtype} vs {target}")
                # values preserved whenever they are representable in the target
                if m.exact:
                    for i, v in enumerate(m.freq):
                        with np.errstate(all="ignore"):
                            rep = Fx(np.array(float(v)).astype(target)) == v
                        if rep:
                            require(Fx(np.asarray(h.frequencies).ravel()[i]) == v, "conversion_changed_value", f"{what}: entry {i}: {np.asarray(h.frequencies).ravel()[i]!r} want {float(v)}")
                        else:
                            m.exact = False
                kinds.add("set_dtype")
                if target.name == "int8":
                    # int8 is not among the supported content types: only the acceptance rule is checked for it,
                    # later sums may legitimately leave its range
                    ctx.label("converted_to_int8")
                    break
            else:
                ctx.refused(what + f" -> {target} (lossy)", call)
                after = snapshot(h)
                require(snap_equal(before, after), "refused_conversion_changed_something", lambda: snap_diff(before, after))
                refused = True
                ctx.label("refused_conversion")
        consistent(h, what)
        if m.compare(h, what):
            ctx.label("narrow_float_overflow")
            break
    ctx.label("start_" + case["spec"]["dtype"], f"d{d}")
    ctx.nt(len(kinds) >= 2 or refused)


@st.composite
def scalars(draw):
    kind = draw(st.sampled_from(["int", "int", "float", "float", "np_int64", "np_int16", "np_float64", "np_float32"]))
    if kind in ("int", "np_int64", "np_int16"):
        v = draw(st.sampled_from([2, 4, 1, 8]))
    else:
        v = draw(st.sampled_from([2.0, 0.5, 4.0, 0.25, 1.0]))
    return [kind, v]


@st.composite
def one_op(draw):
    name = draw(st.sampled_from(["fill", "fill", "fill_n", "fill_n", "add", "iadd", "sub", "isub", "mul", "imul", "div", "idiv", "normalize", "merge",
                                 "slice", "set_dtype", "set_dtype", "set_dtype", "add_shifted", "add_shifted", "assign"]))
    if name == "assign":
        return [name, draw(st.sampled_from(["frequencies", "errors2"])), draw(st.sampled_from(DTYPES[:6] + ["list"])), draw(st.sampled_from(["ints", "halves", "big"]))]
    if name == "add_shifted":
        return [name, draw(st.sampled_from(DTYPES[:6])), draw(st.integers(-4, 6)), draw(st.booleans())]
    ts = st.lists(st.floats(0, 0.999), min_size=2, max_size=2)
    if name == "fill":
        return [name, draw(ts), draw(st.sampled_from([None, None, 1, 2, 0.5, 1.5, 2.0, 0.25, 200, 100, 300])),
                draw(st.sampled_from([None, None, "np_float32", "np_float16", "np_float64", "np_longdouble", "np_int32", "np_int16", "np_int8"]))]
    if name == "fill_n":
        return [name, draw(st.lists(ts, max_size=4)), draw(st.sampled_from(["none", "int", "float", "float16"]))]
    if name in ("add", "iadd", "sub", "isub"):
        return [name, draw(st.sampled_from(DTYPES[:6]))]
    if name in ("mul", "imul", "div", "idiv"):
        return [name, draw(scalars())]
    if name == "normalize":
        return [name, draw(st.booleans())]
    if name == "set_dtype":
        return [name, draw(st.sampled_from(TARGETS)), draw(st.sampled_from(["method", "property", "string"]))]
    return [name]


@st.composite
def histories(draw, tier="quick"):
    dtype = draw(st.sampled_from(DTYPES))
    spec = draw(hgen.hist_spec(dims=(1, 1, 1, 2), dtypes=[dtype if dtype != "float128" else "float64"], max_bins=4, adaptive=draw(st.sampled_from([False, False, True])), gapped=False,
                               with_missed=False, rich_meta=False, forms=("numpy", "static", "fixed")))
    spec["dtype"] = dtype
    # values: sometimes large (outside int16 / float16 range) or fractional, to exercise the conversion rule
    big = draw(st.sampled_from([None, None, 40000, 70000, 3 * 10 ** 9]))
    near_limit = False
    if dtype in ("int16", "int32") and draw(st.integers(0, 3)) == 0:
        # contents a few counts below the limit of the narrow type: any further counting must widen, not wrap
        lim = 32767 if dtype == "int16" else 2 ** 31 - 1
        flat = hgen.flat(spec["freq"])
        flat[0] = lim - draw(st.integers(0, 5))
        it = iter(flat)

        def refill2(x):
            return [refill2(y) for y in x] if isinstance(x, list) else next(it)

        spec["freq"] = refill2(spec["freq"])
        spec["err2"] = None
        big = None
        near_limit = True
    if big is not None and dtype == "float32":
        big = min(big, 70000)  # float32 carries integers exactly only up to 2**24
    if big is not None and dtype not in ("int16", "float16") and not (dtype == "int32" and big > 2 ** 31 - 1):
        flat = hgen.flat(spec["freq"])
        flat[0] = big if dtype.startswith("int") else float(big)
        it = iter(flat)

        def refill(x):
            return [refill(y) for y in x] if isinstance(x, list) else next(it)

        spec["freq"] = refill(spec["freq"])
        if spec["err2"] is not None:
            spec["err2"] = None
    ops = draw(st.lists(one_op(), min_size=1, max_size=10 if tier == "thorough" else 6))
    if near_limit:
        # sums *within* the narrow type (histogram + histogram of the same type, merging) follow numpy and may
        # overflow there: only counting / weighting / scaling / conversions are exercised next to the limit
        ops = [o for o in ops if o[0] not in ("add", "iadd", "add_shifted", "merge")] or [["fill_n", [[0.0, 0.0]], "int"]]
    if dtype in ("int32", "int64", "float32", "float64", "float128") and draw(st.integers(0, 3)) == 0 and max(abs(x) for x in hgen.flat(spec["freq"])) <= 1000:
        # squared errors beyond the range of the narrow types while the contents fit
        k = draw(st.sampled_from([500, 40000]))

        def scale(x):
            return [scale(y) for y in x] if isinstance(x, list) else x * k

        spec["err2"] = scale(spec["err2"] if spec["err2"] is not None else spec["freq"])
    if dtype in ("float32", "float64") and draw(st.integers(0, 4)) == 0:
        # whole-number contents with fractional squared errors (e.g. pairs of weight 0.5): an integer dtype must be refused
        def ints(x):
            return [ints(y) for y in x] if isinstance(x, list) else float(int(x))

        def halves(x):
            return [halves(y) for y in x] if isinstance(x, list) else float(int(x)) + 0.5

        spec["freq"] = ints(spec["freq"])
        spec["err2"] = halves(spec["freq"])
        ops.insert(draw(st.integers(0, len(ops))), ["set_dtype", draw(st.sampled_from(["int64", "int32", "int16"])), "method"])
    return {"spec": spec, "ops": ops}


# ---------------------------------------------------------------------------------
# construction: explicit dtype x weight kind


def check_construct(case, ctx: Ctx):
    import physt

    ps = case["pairs"]
    data = np.array(case["data"], dtype=float)
    edges = np.array([p[0] for p in ps] + [ps[-1][1]])
    wk, dt = case["wkind"], case["dtype"]
    kw = {}
    if wk == "int":
        kw["weights"] = np.array(case["weights"], dtype=np.int64)
    elif wk == "float":
        # float weights of any width are float weights
        kw["weights"] = np.array(case["weights"], dtype=case.get("wdtype") or np.float64)
    if dt:
        kw["dtype"] = dt
    ctx.label(f"w_{wk}", f"dtype_{dt}")
    if case.get("ctor_err2"):
        # the class constructor with whole-number contents and the squared errors of fractional weights
        from physt.histogram1d import Histogram1D

        n_ = len(ps)
        fr = np.array([(i % 3) + 1 for i in range(n_)], dtype=np.int64)
        e2 = [[0.5, 0.25, 1.5, 2.0][(i + case["ctor_err2"]) % 4] for i in range(n_)]
        fractional = any(x != int(x) for x in e2)
        ckw = {"dtype": dt} if dt else {}
        ctx.label("constructor_with_errors2")
        if dt and np.dtype(dt).kind == "i" and fractional:
            ctx.refused("integer histogram with fractional squared errors", lambda: Histogram1D(edges, fr, errors2=e2, **ckw))
        else:
            hc = ctx.call("Histogram1D(bins, frequencies, errors2=...)", lambda: Histogram1D(edges, fr, errors2=e2, **ckw))
            consistent(hc, "constructor")
            tol_ = 2.0 ** -9 if hc.dtype == np.float16 else 0.0
            for i in range(n_):
                require(abs(float(hc.errors2[i]) - e2[i]) <= tol_ * e2[i], "constructed_errors2", f"bin {i}: errors2 {hc.errors2[i]!r} for the given {e2[i]!r} (dtype {hc.dtype})")
                require(float(hc.frequencies[i]) == float(fr[i]), "constructed_value", f"bin {i}: {hc.frequencies[i]!r} for the given {fr[i]!r}")
        ctx.nt(fractional)
        return
    if dt and np.dtype(dt).kind == "i" and wk == "float":
        ctx.refused("integer histogram with float weights", physt.h1, data, edges, **kw)
        if case["nd"]:
            ctx.refused("integer N-D histogram with float weights", lambda: physt.h2(data, data, [edges, edges], **kw))
        ctx.nt()
        return
    h = ctx.call("h1", physt.h1, data, edges, **kw)
    consistent(h, "h1")
    want = np.dtype(dt) if dt else (np.dtype("int64") if wk in ("none", "int") else np.dtype("float64"))
    require(h.dtype == want, "constructed_dtype", f"{h.dtype} vs {want}")
    mm = model.hist1d(ps, case["data"], case["weights"])
    rel = Fraction(2) ** -9 if want == np.float16 else Fraction(0)
    for i in range(len(ps)):
        g = Fx(h.frequencies[i])
        require(g == mm["freq"][i] if rel == 0 else abs(g - mm["freq"][i]) <= rel * mm["freq"][i], "constructed_value", f"bin {i}: {h.frequencies[i]!r} want {float(mm['freq'][i])}")
    ctx.nt(dt is not None and wk != "none")


@st.composite
def construct_cases(draw, tier="quick"):
    ps = draw(gen.pairs(1, 6, gapped=False))
    data = draw(gen.values_for(ps, 0, 20))
    wk = draw(st.sampled_from(["none", "int", "float"]))
    ws = None if wk == "none" else draw(st.lists(st.integers(0, 5) if wk == "int" else gen.dyadics(32, 2), min_size=len(data), max_size=len(data)))
    return {"pairs": ps, "data": data, "wkind": wk, "weights": ws, "dtype": draw(st.sampled_from([None] + DTYPES[:6])), "nd": draw(st.booleans()),
            "wdtype": draw(st.sampled_from([None, None, "float32", "float16", "float64"])),
            "ctor_err2": draw(st.sampled_from([None, None, None, 0, 1, 2, 3]))}


FINDINGS = []

SUBS = [
    Sub("history", lambda tier: histories(tier), check_history, quick=1400, thorough=6000),
    Sub("construct", lambda tier: construct_cases(tier), check_construct, quick=400, thorough=2500),
]

RULE += ' Also: assignment to frequencies / errors2 with arrays of other element types; numpy scalar weights of several widths in fill; contents next to the limits of int16 / int32 / float16.'
RULE += ' construct: float weight arrays of float16 / float32 / float64 with an integer dtype requested.'
RULE += ' construct: the class constructor with integer contents and fractional squared errors (kept in a float type, or refused when an integer dtype is requested).'
