"""C20 — plots show exactly the histogram's data and never modify it."""
from __future__ import annotations

import contextlib
import io
import itertools
import math

import numpy as np
from hypothesis import strategies as st

from pbt import gen, hgen, model
from pbt.core import Ctx, Finding, Sub, Violation, require
from pbt.snap import snapshot, snap_equal, snap_diff

LEVEL = "exploration"
RULE = (
    "Cases: 1-D / 2-D histograms (irregular bins, zero bins, int/float contents, custom errors2, metadata) x backend "
    "{matplotlib (Agg), plotly, ascii} x plot kind (bar, step, line, scatter, fill; map, image, polar_map; hbar) x "
    "density / cumulative / errors / show_values / show_zero / value_format / title and label overrides / ticks; "
    "wrong-dimension histograms, unknown backends and kinds; TimeTickHandler levels x ranges. Oracle: the marks read "
    "back from the figure (patches, lines, collections, error-bar segments, images, texts; plotly traces; captured "
    "stdout) against independently computed positions and heights. Non-trivial: irregular bins with a zero bin and "
    "(density or cumulative or errors), or a 2-D map with >= 2x3 cells of distinct values. distinct = SHA-1."
)
ASSUMPTIONS = [
    "3-D kinds, folium, vega, show_stats, log scales and exact colours are out of scope; colour is only required to be monotone in the value",
    "density=True together with cumulative=True: the normalisation is not specified by the property; only proportionality of the heights to the cumulative sums is asserted",
]

T = 1e-9


def close(a, b, rt=1e-9):
    return abs(float(a) - float(b)) <= rt * max(abs(float(a)), abs(float(b)), 1e-300) + 1e-12


def expected_data(h, density, cumulative):
    f = np.asarray(h.frequencies, dtype=float)
    if cumulative:
        return np.cumsum(f)
    if density:
        sizes = np.asarray([r - l for l, r in np.asarray(h.bins)], dtype=float) if h.ndim == 1 else None
        return f / sizes
    return f


def plt_():
    import matplotlib

    matplotlib.use("Agg")
    import matplotlib.pyplot as plt

    return plt


def check_mpl_1d(case, ctx: Ctx):
    plt = plt_()
    h = ctx.call("build", hgen.build, case["spec"])
    before = snapshot(h)
    kind = case["kind"]
    opts = dict(case["opts"])
    density, cumulative = opts.get("density", False), opts.get("cumulative", False)
    errors = opts.get("errors", False)
    pairs = np.asarray(h.bins, dtype=float)
    n = len(pairs)
    left, right = pairs[:, 0], pairs[:, 1]
    widths, centers = right - left, (left + right) / 2
    data = expected_data(h, density, cumulative)
    err = np.sqrt(np.asarray(h.errors2, dtype=float)) / (widths if density else 1.0)
    ctx.label("kind_" + kind, *(k for k in ("density", "cumulative", "errors", "show_values", "ticks") if opts.get(k)))
    try:
        if density and cumulative:
            # the heights of this combination are not specified; the plot must still leave the histogram alone
            ok_, ax_ = ctx.maybe(h.plot, kind, backend="matplotlib", **{k: v for k, v in opts.items() if k != "errors"})
            ctx.label("density_and_cumulative")
            if ok_ and kind in ("bar", "line", "scatter"):
                # cumulative=True: whatever common normalisation density=True adds, the heights are cumulative sums of
                # the bin contents, i.e. proportional to cumsum(frequencies)
                if kind == "bar":
                    ys = np.array([r.get_height() for r in ax_.patches], dtype=float)
                elif kind == "line":
                    ys = np.asarray(ax_.lines[0].get_ydata(), dtype=float)
                else:
                    ys = np.asarray([c for c in ax_.collections if type(c).__name__ == "PathCollection"][0].get_offsets(), dtype=float)[:, 1]
                cum = np.cumsum(np.asarray(h.frequencies, dtype=float))
                if len(ys) == n and cum[-1] > 0 and np.all(np.isfinite(ys)):
                    for i in range(n):
                        require(abs(ys[i] * cum[-1] - cum[i] * ys[-1]) <= 1e-9 * max(abs(ys[-1] * cum[-1]), 1e-300), "cumulative_not_proportional",
                                f"{kind} density+cumulative heights {ys.tolist()} are not proportional to the cumulative sums {cum.tolist()}")
            require(snap_equal(before, snapshot(h)), "plot_modified_histogram", lambda: snap_diff(before, snapshot(h)))
            return
        ax = ctx.call(f"plot {kind}", h.plot, kind, backend="matplotlib", **opts)
        # ---- the marks
        if kind == "bar":
            rects = [p for p in ax.patches]
            require(len(rects) == n, "bar_count", f"{len(rects)} rectangles for {n} bins")
            for i, r in enumerate(rects):
                require(close(r.get_x(), left[i]) and close(r.get_width(), widths[i]) and close(r.get_y(), 0) and close(r.get_height(), data[i]), "bar_geometry",
                        f"bin {i}: rect x={r.get_x()!r} w={r.get_width()!r} y={r.get_y()!r} h={r.get_height()!r}; expected x={left[i]!r} w={widths[i]!r} h={data[i]!r}")
        elif kind == "step":
            ln = ax.lines[0]
            x, y = np.asarray(ln.get_xdata(), dtype=float), np.asarray(ln.get_ydata(), dtype=float)
            ex = np.concatenate([left[:1], right])
            ey = np.concatenate([data[:1], data])
            require(len(x) == len(ex) and all(close(a, b) for a, b in zip(x, ex)) and all(close(a, b) for a, b in zip(y, ey)), "step_line", f"x={x.tolist()} y={y.tolist()} expected x={ex.tolist()} y={ey.tolist()}")
            require(ln.get_drawstyle() in ("steps-pre", "steps"), "step_drawstyle", ln.get_drawstyle())
        elif kind == "line":
            ln = ax.lines[0]
            x, y = np.asarray(ln.get_xdata(), dtype=float), np.asarray(ln.get_ydata(), dtype=float)
            require(len(x) == n and all(close(a, b) for a, b in zip(x, centers)) and all(close(a, b) for a, b in zip(y, data)), "line_points", f"x={x.tolist()} y={y.tolist()} expected x={centers.tolist()} y={data.tolist()}")
        elif kind == "scatter":
            cols = [c for c in ax.collections if type(c).__name__ == "PathCollection"]
            require(len(cols) >= 1, "scatter_missing", "")
            off = np.asarray(cols[0].get_offsets(), dtype=float)
            require(off.shape == (n, 2) and all(close(a, b) for a, b in zip(off[:, 0], centers)) and all(close(a, b) for a, b in zip(off[:, 1], data)), "scatter_points", f"{off.tolist()} expected {list(zip(centers.tolist(), data.tolist()))}")
        elif kind == "fill":
            polys = [c for c in ax.collections if "Poly" in type(c).__name__ or "FillBetween" in type(c).__name__]
            require(len(polys) == 1, "fill_missing", f"{[type(c).__name__ for c in ax.collections]}")
            verts = np.asarray(polys[0].get_paths()[0].vertices, dtype=float)
            for i in range(n):
                require(any(close(v[0], centers[i]) and close(v[1], data[i]) for v in verts), "fill_vertex", f"no vertex at ({centers[i]!r}, {data[i]!r}): {verts.tolist()}")
                require(any(close(v[0], centers[i]) and close(v[1], 0) for v in verts), "fill_baseline", f"no baseline vertex at x={centers[i]!r}")
        # ---- error bars
        if errors and kind in ("bar", "scatter", "line"):
            segs = []
            seen_containers = set()
            for cont in ax.containers:
                if hasattr(cont, "errorbar") and cont.errorbar is not None:
                    cont = cont.errorbar
                if type(cont).__name__ == "ErrorbarContainer" and id(cont) not in seen_containers:
                    seen_containers.add(id(cont))
                    for lc in cont.lines[2]:
                        segs += [np.asarray(s, dtype=float) for s in lc.get_segments()]
            require(len(segs) == n, "errorbar_count", f"{len(segs)} error bars for {n} bins")
            for i, s in enumerate(segs):
                lo, hi = sorted([s[0][1], s[1][1]])
                et = 1e-6 if h.dtype.itemsize < 8 else 1e-9  # float32 / float16 contents carry their own rounding
                scale = max(abs(float(data[i])), abs(float(err[i])), 1e-300)  # (value - error cancels: tolerance relative to the operands)
                require(close(s[0][0], centers[i]) and abs(lo - (data[i] - err[i])) <= et * scale and abs(hi - (data[i] + err[i])) <= et * scale, "errorbar_span",
                        f"bin {i}: segment {s.tolist()} expected x={centers[i]!r} y={data[i] - err[i]!r}..{data[i] + err[i]!r}")
        # ---- value labels
        if opts.get("show_values") and kind in ("bar", "scatter", "line", "step"):
            fmt = opts.get("value_format")
            texts = [t for t in ax.texts]
            require(len(texts) == n, "value_text_count", f"{len(texts)} texts for {n} bins")
            for i, t in enumerate(texts):
                want = ("{0:" + fmt + "}").format(data[i]) if fmt else None
                x, y = t.get_position()
                require(close(x, centers[i]) and close(y, data[i]), "value_text_position", f"bin {i}: ({x!r},{y!r}) expected ({centers[i]!r},{data[i]!r})")
                if want is not None:
                    require(t.get_text() == want, "value_text", f"bin {i}: {t.get_text()!r} expected {want!r}")
                else:
                    require(close(float(t.get_text()), data[i], 1e-6), "value_text", f"bin {i}: {t.get_text()!r} expected {data[i]!r}")
        # ---- labels
        want_title = opts.get("title", h.title)
        require(ax.get_title() == (want_title or ""), "title", f"{ax.get_title()!r} expected {want_title!r}")
        want_x = opts.get("xlabel", h.axis_names[0])
        require(ax.get_xlabel() == (want_x or ""), "xlabel", f"{ax.get_xlabel()!r} expected {want_x!r}")
        if "ylabel" in opts:
            require(ax.get_ylabel() == opts["ylabel"], "ylabel", f"{ax.get_ylabel()!r}")
        if opts.get("ticks") == "center":
            require(all(close(a, b) for a, b in zip(ax.get_xticks(), centers)) and len(ax.get_xticks()) == n, "ticks_center", f"{list(ax.get_xticks())}")
        if opts.get("ticks") == "edge":
            require(all(close(a, b) for a, b in zip(ax.get_xticks(), left)) and len(ax.get_xticks()) == n, "ticks_edge", f"{list(ax.get_xticks())}")
    finally:
        plt.close("all")
    require(snap_equal(before, snapshot(h)), "plot_modified_histogram", lambda: snap_diff(before, snapshot(h)))
    irregular = len({round(w, 12) for w in widths}) > 1
    has_zero = bool(np.any(np.asarray(h.frequencies) == 0))
    ctx.nt(irregular and (density or cumulative or errors))
    if has_zero:
        ctx.label("has_empty_bin")


def _make_empty_bin(spec):
    """Log colour scales have to cope with an empty bin next to filled ones: make sure there is one."""
    f = spec["freq"]
    row = f
    while isinstance(row[0], list):
        row = row[0]
    rest = [x for x in hgen.flat(f)][1:]
    if any(x > 0 for x in rest):
        row[0] = 0
        if spec.get("err2") is not None:
            e = spec["err2"]
            while isinstance(e[0], list):
                e = e[0]
            e[0] = 0


@st.composite
def mpl_1d_cases(draw, tier="quick"):
    kind = draw(st.sampled_from(["bar", "bar", "step", "line", "scatter", "fill"]))
    spec = draw(hgen.hist_spec(dims=(1,), dtypes=["int64", "float64", "int32", "float32"], max_bins=7, adaptive=False, gapped=False if kind == "step" else None,
                               rich_meta=False, forms=("numpy", "static", "fixed", "edges", "pairs")))
    # avoid denormal-scale axes: matplotlib cannot lay them out
    if min(r - l for l, r in spec["axes"][0]["pairs"]) < 1e-30:
        spec["axes"][0] = {"form": "numpy", "pairs": [[0.0, 1.0], [1.0, 1.5], [1.5, 4.0]][: len(spec["axes"][0]["pairs"])] or [[0.0, 1.0]], "incl": True}
        n = len(spec["axes"][0]["pairs"])
        spec["freq"] = spec["freq"][:n]
        spec["err2"] = spec["err2"][:n] if spec["err2"] is not None else None
    opts = {}
    mode = draw(st.sampled_from(["plain", "plain", "density", "density", "cumulative", "cumulative", "both"]))
    if mode == "both":
        opts["density"] = opts["cumulative"] = True
    elif mode != "plain":
        opts[mode] = True
    if kind in ("bar", "scatter", "line") and mode != "cumulative" and draw(st.booleans()):
        opts["errors"] = True
    if kind in ("bar", "scatter", "line", "step") and draw(st.booleans()):
        opts["show_values"] = True
        if draw(st.booleans()):
            opts["value_format"] = draw(st.sampled_from([".2f", ".3g", ".1e"]))
    if draw(st.integers(0, 3)) == 0:
        opts["title"] = draw(st.sampled_from(["Custom title", ""]))
    if draw(st.integers(0, 3)) == 0:
        opts["xlabel"] = "custom x"
    if draw(st.integers(0, 5)) == 0:
        opts["ylabel"] = "custom y"
    if draw(st.integers(0, 4)) == 0:
        opts["ticks"] = draw(st.sampled_from(["center", "edge"]))
    if kind in ("bar", "scatter") and mode != "both" and draw(st.booleans()) and any(x > 0 for x in hgen.flat(spec["freq"])):
        # colour options: colours themselves are not checked, but the marks must stay put and the histogram untouched
        opts["cmap"] = draw(st.sampled_from(["Greys", "viridis"]))
        if draw(st.booleans()):
            opts["cmap_normalize"] = "log"
            _make_empty_bin(spec)
    return {"kind": kind, "spec": spec, "opts": opts}


# ---------------------------------------------------------------------------------
# 2-D matplotlib


def luminance(rgba):
    return 0.299 * rgba[0] + 0.587 * rgba[1] + 0.114 * rgba[2]


def check_mpl_2d(case, ctx: Ctx):
    plt = plt_()
    h = ctx.call("build", hgen.build, case["spec"])
    kind = case["kind"]
    if case.get("negative_cell") is not None and kind == "map" and all(b.bin_count for b in h.binnings):
        # a bin pushed below zero by a negative weight (legal in fill): still a bin with a content of its own
        i_, j_ = case["negative_cell"][0] % h.shape[0], case["negative_cell"][1] % h.shape[1]
        mid_ = [float((h.bins[0][i_][0] + h.bins[0][i_][1]) / 2), float((h.bins[1][j_][0] + h.bins[1][j_][1]) / 2)]
        f_ = np.asarray(h.frequencies, dtype=float).copy()
        f_[i_, j_] = 0
        ok_ = False
        if f_.max() > 0:  # (a colour scale from 0 to a non-positive maximum does not exist: such histograms are out of scope)
            ok_, _ = ctx.maybe(h.fill, mid_, -(float(np.asarray(h.frequencies)[i_, j_]) + 2.5))
        if ok_ and float(np.asarray(h.frequencies)[i_, j_]) < 0:
            ctx.label("negative_cell")
    before = snapshot(h)
    opts = dict(case["opts"])
    density = opts.get("density", False)
    bx, by = np.asarray(h.bins[0], dtype=float), np.asarray(h.bins[1], dtype=float)
    nx, ny = len(bx), len(by)
    f = np.asarray(h.frequencies, dtype=float)
    sizes = np.asarray(h.bin_sizes, dtype=float)
    data = f / sizes if density else f
    ctx.label("kind_" + kind, *(k for k in ("density", "show_values", "show_zero") if opts.get(k) is not None and opts.get(k) is not False))
    try:
        if kind == "image":
            regular = all(len({round(r - l, 9) for l, r in b}) == 1 for b in (bx, by)) and all(not model.gaps(model.pairs_of(b)) for b in (bx, by))
            if not regular:
                ctx.label("image_refused_irregular")
                ctx.nt()
                ctx.refused("image of irregular bins", h.plot, "image", backend="matplotlib", **opts)
                return
        ax = ctx.call(f"plot {kind}", h.plot, kind, backend="matplotlib", **opts)
        if kind == "map":
            show_zero = opts.get("show_zero", True)
            rects = list(ax.patches)
            cells = [(i, j) for i in range(nx) for j in range(ny) if data[i, j] != 0 or show_zero]
            require(len(rects) == len(cells), "map_cell_count", f"{len(rects)} patches for {len(cells)} cells")
            seen = []
            for (i, j), r in zip(cells, rects):
                require(type(r).__name__ == "Rectangle", "map_cell_not_a_rectangle", f"cell ({i},{j}) drawn as {type(r).__name__}")
                require(close(r.get_x(), bx[i][0]) and close(r.get_y(), by[j][0]) and close(r.get_width(), bx[i][1] - bx[i][0]) and close(r.get_height(), by[j][1] - by[j][0]), "map_cell_geometry",
                        f"cell ({i},{j}): rect ({r.get_x()!r},{r.get_y()!r},{r.get_width()!r},{r.get_height()!r}) expected ({bx[i][0]!r},{by[j][0]!r},{bx[i][1] - bx[i][0]!r},{by[j][1] - by[j][0]!r})")
                if opts.get("cmap_normalize") == "log" and data[i, j] <= 0:
                    continue  # (no logarithm, no colour: only the cell itself is required)
                seen.append((data[i, j], luminance(r.get_facecolor())))
            seen.sort()
            for (v1, l1), (v2, l2) in zip(seen[:-1], seen[1:]):
                if v1 == v2:
                    require(abs(l1 - l2) < 1e-9, "map_colour_same_value", f"value {v1}: luminance {l1} vs {l2}")
                else:
                    require(l1 >= l2 - 1e-9, "map_colour_not_monotone", f"value {v1} -> {l1}, value {v2} -> {l2} (default 'Greys': darker = larger)")
            if opts.get("show_values"):
                texts = list(ax.texts)
                require(len(texts) == len(cells), "map_text_count", f"{len(texts)} vs {len(cells)}")
                fmt = opts.get("value_format")
                for (i, j), t in zip(cells, texts):
                    x, y = t.get_position()
                    require(close(x, (bx[i][0] + bx[i][1]) / 2) and close(y, (by[j][0] + by[j][1]) / 2), "map_text_position", f"cell ({i},{j}): ({x!r},{y!r})")
                    want = ("{0:" + fmt + "}").format(data[i, j]) if fmt else None
                    if want is not None:
                        require(t.get_text() == want, "map_text", f"cell ({i},{j}): {t.get_text()!r} expected {want!r}")
                    else:
                        require(close(float(t.get_text()), data[i, j], 1e-6), "map_text", f"cell ({i},{j}): {t.get_text()!r} expected {data[i, j]!r}")
        elif kind == "image":
            im = ax.images[0]
            arr = np.asarray(im.get_array(), dtype=float)
            require(arr.shape == (ny, nx) and np.allclose(arr, data.T[::-1, :], rtol=1e-12, atol=0), "image_array", f"{arr.tolist()} expected {data.T[::-1, :].tolist()}")
            ext = [float(x) for x in im.get_extent()]
            require(all(close(a, b) for a, b in zip(ext, [bx[0][0], bx[-1][1], by[0][0], by[-1][1]])), "image_extent", f"{ext}")
        elif kind == "polar_map":
            show_zero = opts.get("show_zero", True)
            rects = list(ax.patches)
            cells = [(i, j) for i in range(nx) for j in range(ny) if data[i, j] > 0 or show_zero]
            require(len(rects) == len(cells), "polar_cell_count", f"{len(rects)} vs {len(cells)}")
            for (i, j), r in zip(cells, rects):
                require(close(r.get_x(), by[j][0]) and close(r.get_width(), by[j][1] - by[j][0]) and close(r.get_y(), bx[i][0]) and close(r.get_height(), bx[i][1] - bx[i][0]), "polar_cell_geometry",
                        f"cell ({i},{j}): bar (phi={r.get_x()!r}, r={r.get_y()!r}, dphi={r.get_width()!r}, dr={r.get_height()!r})")
        if kind in ("map", "image"):
            want_title = opts.get("title", h.title)
            require(ax.get_title() == (want_title or ""), "title", f"{ax.get_title()!r} expected {want_title!r}")
            require(ax.get_xlabel() == (opts.get("xlabel", h.axis_names[0]) or ""), "xlabel", f"{ax.get_xlabel()!r}")
            require(ax.get_ylabel() == (opts.get("ylabel", h.axis_names[1]) or ""), "ylabel", f"{ax.get_ylabel()!r}")
    finally:
        plt.close("all")
    require(snap_equal(before, snapshot(h)), "plot_modified_histogram", lambda: snap_diff(before, snapshot(h)))
    distinct = len(set(np.asarray(f).ravel().tolist()))
    ctx.nt(kind == "map" and nx * ny >= 6 and distinct >= 4)


@st.composite
def mpl_2d_cases(draw, tier="quick"):
    kind = draw(st.sampled_from(["map", "map", "map", "image", "image", "polar_map"]))
    if kind == "polar_map":
        spec = draw(hgen.hist_spec(dims=(2,), dtypes=["int64", "float64"], max_bins=4, adaptive=False, rich_meta=False, forms=("numpy",), gapped=False))
        spec["class"] = "PolarHistogram"
        nr, nphi = len(spec["axes"][0]["pairs"]), len(spec["axes"][1]["pairs"])
        spec["axes"][0]["pairs"] = [[float(i), float(i + 1)] for i in range(nr)]
        spec["axes"][1]["pairs"] = [[2 * math.pi * j / nphi, 2 * math.pi * (j + 1) / nphi] for j in range(nphi)]
    else:
        forms = ("numpy", "fixed") if kind == "image" and draw(st.booleans()) else ("numpy", "static", "fixed", "edges")
        spec = draw(hgen.hist_spec(dims=(2,), dtypes=["int64", "float64", "int32"], max_bins=4, adaptive=False, rich_meta=False, forms=forms, gapped=False))
        for ax in spec["axes"]:
            if min(r - l for l, r in ax["pairs"]) < 1e-30 or max(abs(v) for p in ax["pairs"] for v in p) > 1e12:
                n = len(ax["pairs"])
                ax.clear()
                ax.update({"form": "numpy", "pairs": [[float(i), float(i + 1) if i < 2 else float(i) + 2.5] for i in range(n)], "incl": True})
                ps = ax["pairs"]
                for k in range(1, len(ps)):
                    ps[k][0] = ps[k - 1][1]
                    ps[k][1] = ps[k][0] + (1.0 if k % 2 else 2.5)
    if kind == "image" and draw(st.integers(0, 3)) > 0:
        # image() needs regular bins: most generated axes are irregular (and are refused), so make regular ones on purpose
        for ax in spec["axes"]:
            n = len(ax["pairs"])
            w = draw(st.sampled_from([1.0, 0.5, 2.0, 0.25]))
            lo = draw(st.sampled_from([0.0, -3.0, 10.0]))
            ax.clear()
            ax.update({"form": "numpy", "pairs": [[lo + i * w, lo + (i + 1) * w] for i in range(n)], "incl": True})
    opts = {}
    if draw(st.booleans()):
        opts["density"] = True
    if kind in ("map", "polar_map") and draw(st.booleans()):
        opts["show_zero"] = False
    if kind == "map" and draw(st.booleans()):
        opts["show_values"] = True
        if draw(st.booleans()):
            opts["value_format"] = draw(st.sampled_from([".2f", ".3g"]))
    if kind != "polar_map":
        if draw(st.integers(0, 3)) == 0:
            opts["title"] = "Custom"
        if draw(st.integers(0, 3)) == 0:
            opts["xlabel"] = "cx"
        if draw(st.integers(0, 3)) == 0:
            opts["ylabel"] = "cy"
    if draw(st.booleans()):
        opts["show_colorbar"] = draw(st.booleans())
    if kind == "image" and draw(st.booleans()) and any(x > 0 for x in hgen.flat(spec["freq"])):
        opts["cmap_normalize"] = "log"  # (colours are not checked; the image array and the histogram are)
        _make_empty_bin(spec)
    if kind == "map" and draw(st.integers(0, 3)) == 0 and any(x > 0 for x in hgen.flat(spec["freq"])):
        opts["cmap_normalize"] = "log"  # (an empty bin has no colour on this scale, but it is still a cell)
        _make_empty_bin(spec)
    if kind == "image" and draw(st.integers(0, 4)) == 0:
        # equally wide bins with a gap between them: not a regular grid, no image
        ax = spec["axes"][draw(st.integers(0, 1))]
        n = len(ax["pairs"])
        if n >= 2:
            ax.clear()
            ax.update({"form": "static", "pairs": [[2.0 * i, 2.0 * i + 1.0] for i in range(n)], "incl": True})
    return {"kind": kind, "spec": spec, "opts": opts, "negative_cell": draw(st.one_of(st.none(), st.none(), st.lists(st.integers(0, 5), min_size=2, max_size=2)))}


# ---------------------------------------------------------------------------------
# plotly, ascii, refusals


def check_other(case, ctx: Ctx):
    from physt.histogram_collection import HistogramCollection

    h = ctx.call("build", hgen.build, case["spec"])
    before = snapshot(h)
    be, kind = case["backend"], case["kind"]
    opts = dict(case["opts"])
    ctx.label(f"{be}_{kind}")
    if be == "plotly":
        if h.ndim == 1:
            mode = {"plain": {}, "density": {"density": True}, "cumulative": {"cumulative": True}}[case["mode"]]
            target = h
            members = [h]
            if case.get("collection"):
                h2 = h.copy()
                h2.name = "second"
                target = HistogramCollection(h, h2)
                members = [h, h2]
            fig = ctx.call(f"plotly {kind}", target.plot, kind, backend="plotly", **mode)
            require(len(fig.data) == len(members), "trace_count", f"{len(fig.data)}")
            pairs = np.asarray(h.bins, dtype=float)
            centers, widths = (pairs[:, 0] + pairs[:, 1]) / 2, pairs[:, 1] - pairs[:, 0]
            for tr, m in zip(fig.data, members):
                data = expected_data(m, mode.get("density", False), mode.get("cumulative", False))
                require(type(tr).__name__ == ("Bar" if kind == "bar" else "Scatter"), "trace_type", type(tr).__name__)
                require(all(close(a, b) for a, b in zip(tr.x, centers)) and len(tr.x) == len(centers), "trace_x", f"{list(tr.x)}")
                require(all(close(a, b) for a, b in zip(tr.y, data)) and len(tr.y) == len(data), "trace_y", f"{list(tr.y)} expected {data.tolist()}")
                if kind == "bar":
                    require(all(close(a, b) for a, b in zip(tr.width, widths)), "trace_width", f"{list(tr.width)}")
                else:
                    require(tr.mode == ("markers" if kind == "scatter" else "lines"), "trace_mode", tr.mode)
                require(tr.name == m.name, "trace_name", f"{tr.name!r} vs {m.name!r}")
            ctx.nt(case["mode"] != "plain" and len({round(w, 12) for w in widths}) > 1)
        else:
            fig = ctx.call("plotly map", h.plot, "map", backend="plotly")
            require(type(fig.data[0]).__name__ == "Heatmap", "trace_type", type(fig.data[0]).__name__)
            hm = fig.data[0]
            z = np.asarray(hm.z, dtype=float)
            f2 = np.asarray(h.frequencies, dtype=float)
            require(z.ndim == 2 and z.size == f2.size, "heatmap_z", f"{z.shape} cells for {f2.shape} bins")

            def cell_intervals(coords, count):
                # plotly: no coordinates -> cells centred on 0..n-1; n coordinates -> centres (boundaries half way); n+1 -> edges
                if coords is None:
                    c = np.arange(count, dtype=float)
                else:
                    c = np.asarray(coords, dtype=float)
                if len(c) == count + 1:
                    return [(c[k], c[k + 1]) for k in range(count)]
                require(len(c) == count, "heatmap_coordinates", f"{len(c)} coordinates for {count} cells")
                if count == 1:
                    return [(c[0] - 0.5, c[0] + 0.5)]
                mids = (c[:-1] + c[1:]) / 2
                return [(c[0] - (mids[0] - c[0]) if k == 0 else mids[k - 1], c[-1] + (c[-1] - mids[-1]) if k == count - 1 else mids[k]) for k in range(count)]

            rows, cols = z.shape  # plotly: z[row][column], rows along y, columns along x
            xs, ys = cell_intervals(hm.x, cols), cell_intervals(hm.y, rows)
            bx, by = np.asarray(h.bins[0], dtype=float), np.asarray(h.bins[1], dtype=float)
            used = set()
            for i in range(f2.shape[0]):
                for j in range(f2.shape[1]):
                    cx, cy = (bx[i][0] + bx[i][1]) / 2, (by[j][0] + by[j][1]) / 2
                    col = [k for k, (a, b) in enumerate(xs) if a <= cx < b or (k == cols - 1 and cx == b)]
                    row = [k for k, (a, b) in enumerate(ys) if a <= cy < b or (k == rows - 1 and cy == b)]
                    require(len(col) == 1 and len(row) == 1, "heatmap_cell_not_at_bin",
                            f"no heatmap cell covers the centre ({cx!r}, {cy!r}) of bin ({i},{j}); x cells {xs[:3]}.., y cells {ys[:3]}..")
                    require((row[0], col[0]) not in used, "heatmap_cell_shared", f"bin ({i},{j}) shares the cell {(row[0], col[0])} with another bin")
                    used.add((row[0], col[0]))
                    require(z[row[0], col[0]] == f2[i, j], "heatmap_value", f"bin ({i},{j}) with content {f2[i, j]!r} is shown by a cell of value {z[row[0], col[0]]!r}")
            ctx.nt(z.size >= 6)
    elif be == "ascii":
        f = np.asarray(h.frequencies, dtype=float)
        if f.sum() < 0:
            return
        width = opts.get("width", 80)
        buf = io.StringIO()
        with contextlib.redirect_stdout(buf):
            ctx.call("ascii hbar", h.plot, "hbar", backend="ascii", **opts)
        lines = buf.getvalue().splitlines()
        require(len(lines) == len(f), "ascii_line_count", f"{len(lines)} lines for {len(f)} bins")
        for i, ln in enumerate(lines):
            total = f.sum() or 1.0  # (an all-zero histogram: no marks at all)
            want = int(round(f[i] / total * width))
            shares = f[i] / total * width
            got = len(ln) - len(ln.lstrip("#")) if not ln.startswith("#") else len(ln.split(" ")[0])
            got = ln.count("#")
            ok = got == want or (abs(shares % 1 - 0.5) < 1e-9 and abs(got - shares) <= 0.5 + 1e-9)
            require(ok, "ascii_bar_length", f"bin {i}: {got} marks, expected round({shares!r})")
            if opts.get("show_values"):
                require(ln.rstrip().endswith(str(h.frequencies[i])), "ascii_value", f"bin {i}: {ln!r} expected suffix {h.frequencies[i]!s}")
            else:
                require(set(ln) <= {"#"}, "ascii_extra_text", f"bin {i}: {ln!r}")
        ctx.nt(len(f) >= 3)
    else:  # refusals
        ctx.nt()
        plt = plt_()
        try:
            if kind == "wrong_dim":
                for k in (["map", "image", "polar_map"] if h.ndim == 1 else ["bar", "step", "line", "scatter", "fill"]):
                    exc = ctx.refused(f"matplotlib {k} on a {h.ndim}-D histogram", h.plot, k, backend="matplotlib")
                    require(isinstance(exc, TypeError), "wrong_dimension_error_type", f"{k}: {type(exc).__name__}: {exc}")
                for k in (["map"] if h.ndim == 1 else ["bar", "line", "scatter"]):
                    exc = ctx.refused(f"plotly {k} on a {h.ndim}-D histogram", h.plot, k, backend="plotly")
                    require(isinstance(exc, TypeError), "wrong_dimension_error_type", f"plotly {k}: {type(exc).__name__}")
                if h.ndim == 2:
                    ctx.refused("ascii hbar on a 2-D histogram", h.plot, "hbar", backend="ascii")
            elif kind == "unknown_backend":
                ctx.refused("unknown backend", h.plot, backend=case["name"])
                ctx.refused("unknown backend with kind", h.plot, "bar" if h.ndim == 1 else "map", backend=case["name"])
            else:
                ctx.refused("unknown kind (matplotlib)", h.plot, case["name"], backend="matplotlib")
                ctx.refused("unknown kind (plotly)", h.plot, case["name"], backend="plotly")
                ctx.refused("unknown kind (ascii)", h.plot, case["name"], backend="ascii")
        finally:
            plt.close("all")
    require(snap_equal(before, snapshot(h)), "plot_modified_histogram", lambda: snap_diff(before, snapshot(h)))


@st.composite
def other_cases(draw, tier="quick"):
    be = draw(st.sampled_from(["plotly", "plotly", "ascii", "refusal"]))
    d = draw(st.sampled_from([1, 1, 2])) if be != "ascii" else 1
    spec = draw(hgen.hist_spec(dims=(d,), dtypes=["int64", "float64", "int32"], max_bins=6 if d == 1 else 4, adaptive=False, rich_meta=False,
                               forms=("numpy", "static", "fixed", "edges"), gapped=False))
    case = {"backend": be, "spec": spec, "opts": {}, "kind": "bar", "mode": "plain"}
    if be == "plotly":
        case["kind"] = draw(st.sampled_from(["bar", "scatter", "line"])) if d == 1 else "map"
        case["mode"] = draw(st.sampled_from(["plain", "density", "cumulative"]))
        case["collection"] = draw(st.booleans()) and d == 1
    elif be == "ascii":
        case["kind"] = "hbar"
        if draw(st.booleans()):
            case["opts"]["show_values"] = True
        if draw(st.booleans()):
            case["opts"]["width"] = draw(st.sampled_from([10, 40, 80, 33]))
    else:
        case["kind"] = draw(st.sampled_from(["wrong_dim", "unknown_backend", "unknown_kind"]))
        case["name"] = draw(st.sampled_from(["bokeh", "gnuplot", "Matplotlib", "nonsense"])) if case["kind"] == "unknown_backend" else draw(st.sampled_from(["pie", "Bar", "hist", "violin", ""]))
    return case


# ---------------------------------------------------------------------------------
# time ticks

UNITS = {"sec": 1, "min": 60, "hour": 3600, "day": 86400}


def check_ticks(case, ctx: Ctx):
    from physt.histogram1d import Histogram1D
    from physt.plotting.common import TimeTickHandler

    lo, span = case["lo"], case["span"]
    hi = lo + span
    edges = np.linspace(lo, hi, case["bins"] + 1)
    h = Histogram1D(edges, np.ones(case["bins"], dtype=int))
    level = case["level"]
    arg = tuple(level) if isinstance(level, list) else level
    handler = ctx.call("TimeTickHandler", TimeTickHandler, arg)
    ticks, labels = ctx.call("handler(h, min, max)", handler, h, lo, hi)
    ticks = [float(t) for t in ticks]
    require(len(labels) == len(ticks), "label_count", f"{len(labels)} labels for {len(ticks)} ticks")
    ctx.label("level_" + (str(level) if not isinstance(level, list) else level[0]))
    if level in ("edge", "edges"):
        require(ticks == [float(x) for x in edges], "edge_ticks", f"{ticks}")
        return
    if level in ("center", "centers"):
        require(all(close(a, b) for a, b in zip(ticks, (edges[:-1] + edges[1:]) / 2)) and len(ticks) == case["bins"], "center_ticks", f"{ticks}")
        return
    lv = handler.level or TimeTickHandler.deduce_level(lo, hi)
    unit = float(lv[1]) * UNITS[lv[0]]
    if isinstance(level, list):
        require(lv[0] == level[0] and float(lv[1]) == float(level[1]), "level_parse", f"{lv} vs {level}")
    elif isinstance(level, str):
        import re

        m = re.match(r"^([0-9.]+)?([a-z]+)$", level)
        k = float(m.group(1)) if m.group(1) else 1.0
        u = {"s": "sec", "sec": "sec", "secs": "sec", "m": "min", "min": "min", "mins": "min", "h": "hour", "hour": "hour", "hours": "hour", "d": "day", "day": "day", "days": "day"}[m.group(2)]
        require(lv[0] == u and float(lv[1]) == k, "level_parse", f"{level!r} parsed as {lv}")
    delta = 1e-9 * unit
    for t in ticks:
        q = t / unit
        require(abs(q - round(q)) <= 1e-9 * max(1.0, abs(q)), "tick_not_multiple", f"tick {t!r} is not a multiple of {unit!r}")
        require(lo - delta <= t <= hi + delta, "tick_outside_range", f"tick {t!r} outside [{lo!r}, {hi!r}]")
    kmin, kmax = math.ceil((lo + delta) / unit), math.floor((hi - delta) / unit)
    have = {round(t / unit) for t in ticks}
    if kmax - kmin < 5000:
        for k in range(kmin, kmax + 1):
            require(k in have, "tick_missing", f"multiple {k}*{unit!r} = {k * unit!r} inside [{lo!r}, {hi!r}] has no tick; ticks {ticks[:6]}...")
    require(ticks == sorted(ticks) and len(set(ticks)) == len(ticks), "ticks_not_rising", f"{ticks[:8]}")
    ctx.nt(len(ticks) >= 2)


@st.composite
def tick_cases(draw, tier="quick"):
    level = draw(st.sampled_from([None, None, "sec", "min", "hour", "day", "2h", "30m", "15s", "6h", "2d", "0.5s", "10min", "3hours", ["min", 5], ["sec", 20], ["hour", 2],
                                  ["day", 1], "edge", "center", "edges", "centers"]))
    unit = 1.0
    if isinstance(level, list):
        unit = level[1] * UNITS[level[0]]
    elif isinstance(level, str) and level not in ("edge", "center", "edges", "centers"):
        import re

        m = re.match(r"^([0-9.]+)?([a-z]+)$", level)
        unit = (float(m.group(1)) if m.group(1) else 1.0) * {"s": 1, "sec": 1, "m": 60, "min": 60, "h": 3600, "hour": 3600, "hours": 3600, "d": 86400, "day": 86400}[m.group(2)]
    else:
        unit = draw(st.sampled_from([1.0, 60.0, 3600.0, 86400.0, 0.01]))
    span = unit * draw(st.sampled_from([0.5, 1.0, 3.0, 7.5, 24.0, 100.0]))
    lo = draw(st.sampled_from([0.0, unit, -3 * unit, 0.25 * unit, 5e-324, unit * 10.5, -unit * 0.5, 12345.678]))
    return {"level": level, "lo": lo, "span": span, "bins": draw(st.integers(1, 6))}


# ---------------------------------------------------------------------------------
# time ticks through the plots: the axis range is the one shown


def check_plot_ticks(case, ctx: Ctx):
    from physt.histogram1d import Histogram1D
    from physt.plotting.common import TimeTickHandler

    plt = plt_()
    unit = case["unit"]
    edges = np.array([unit * k for k in case["edges"]], dtype=float)
    h = Histogram1D(edges, np.array([(i % 3) + 1 for i in range(len(edges) - 1)]))
    before = snapshot(h)
    level = ("sec", unit) if unit < 60 else ("min", unit // 60)
    opts = {"tick_handler": TimeTickHandler(level)}
    lo, hi = float(edges[0]), float(edges[-1])
    if case["xlim"] is not None:
        lo, hi = lo + case["xlim"][0] * unit, hi + case["xlim"][1] * unit
        opts["xlim"] = (lo, hi)
    ctx.label("kind_" + case["kind"], "xlim_given" if case["xlim"] is not None else "xlim_auto")
    try:
        ax = ctx.call(f"plot {case['kind']} with time ticks", h.plot, case["kind"], backend="matplotlib", **opts)
        ticks = [float(t) for t in ax.get_xticks()]
        labels = [t.get_text() for t in ax.get_xticklabels()]
        shown = tuple(float(x) for x in ax.get_xlim())
        require(close(shown[0], lo) and close(shown[1], hi), "axis_range", f"x axis shows {shown}, expected ({lo}, {hi})")
        want = [k * float(unit) for k in range(math.ceil(lo / unit - 1e-9), math.floor(hi / unit + 1e-9) + 1)]
        require(len(ticks) == len(want) and all(close(a, b) for a, b in zip(ticks, want)), "plot_time_ticks",
                f"ticks {ticks} expected the multiples of {unit} s inside [{lo}, {hi}]: {want}")
        require(len(labels) == len(ticks), "label_count", f"{len(labels)} labels for {len(ticks)} ticks")
    finally:
        plt.close("all")
    require(snap_equal(before, snapshot(h)), "plot_modified_histogram", lambda: snap_diff(before, snapshot(h)))
    ctx.nt(case["xlim"] is not None and case["xlim"] != [0, 0])


@st.composite
def plot_tick_cases(draw, tier="quick"):
    n = draw(st.integers(1, 5))
    start = draw(st.integers(-3, 4))
    steps = draw(st.lists(st.sampled_from([1, 2, 3]), min_size=n, max_size=n))
    edges = [start]
    for s_ in steps:
        edges.append(edges[-1] + s_)
    xlim = draw(st.one_of(st.none(), st.tuples(st.sampled_from([-2, -1, 0, 0.5]), st.sampled_from([0, 1, 2.5, -0.5])).map(list)))
    if xlim is not None and edges[0] + xlim[0] >= edges[-1] + xlim[1]:
        xlim = [-1, 1]
    return {"unit": draw(st.sampled_from([1800, 60, 15, 600])), "edges": edges, "xlim": xlim,
            "kind": draw(st.sampled_from(["bar", "step", "line", "scatter", "fill"]))}


FINDINGS = []

SUBS = [
    Sub("mpl_1d", lambda tier: mpl_1d_cases(tier), check_mpl_1d, quick=320, thorough=1500),
    Sub("mpl_2d", lambda tier: mpl_2d_cases(tier), check_mpl_2d, quick=200, thorough=1000),
    Sub("other", lambda tier: other_cases(tier), check_other, quick=300, thorough=1500),
    Sub("ticks", lambda tier: tick_cases(tier), check_ticks, quick=600, thorough=4000),
    Sub("plot_ticks", lambda tier: plot_tick_cases(tier), check_plot_ticks, quick=120, thorough=600),
]

RULE += ' Also: density=True with cumulative=True (heights proportional to the cumulative sums); maps with a cell pushed below zero by a negative fill weight.'
RULE += ' plot_ticks: the five 1-D matplotlib kinds with tick_handler=TimeTickHandler(unit) and either the default or an explicit (wider / narrower) xlim: the ticks are the multiples of the unit inside the range the axis shows; non-trivial = an explicit xlim that differs from the bin span.'
