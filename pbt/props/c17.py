"""C17 — every supported input container gives the same histogram as its array."""
from __future__ import annotations

import atexit
import math
import os
import shutil
import tempfile
import warnings

import numpy as np
from hypothesis import strategies as st

from pbt import gen, hgen, model
from pbt.core import Ctx, Finding, Sub, Violation, require
from pbt.model import F
from pbt.snap import snapshot, snap_equal, snap_diff, same

LEVEL = "exploration"
RULE = (
    "Cases: numeric data (with/without NaN, with/without weights) wrapped as list, tuple, iterator, nested list, 2-D "
    "array, pandas Series (float / int / nullable Int64 / named), pandas DataFrame (also through .physt.h1/.h2/"
    ".histogram, weights by column name or array), polars Series / DataFrame (also .physt), dask arrays with generated "
    "chunkings; h1, h2, h; dropna both ways; explicit vs inferred axis names; refusal inputs (strings, object dtype, "
    "polars nulls, DataFrame to h1, Series to h, ragged rows, scalars). Conversions: xarray Dataset, pandas Series / "
    "DataFrame / IntervalIndex, Geant4 CSV rendered by the check. Oracle: differential - the histogram from the "
    "container equals (public snapshot) the one from the equivalent numpy array. Non-trivial: NaN together with "
    "non-uniform weights, a multi-column frame, a dask array with >= 3 chunks, or a refusal. distinct = SHA-1."
)
ASSUMPTIONS = [
    "the numpy-array path is the reference (its own correctness is C01/C02)",
    "Geant4 2-D files are rendered in the row-major order load_csv assumes (the real g4tools order could not be checked offline)",
]

_TMP = None


def tmpdir():
    global _TMP
    if _TMP is None:
        _TMP = tempfile.mkdtemp(prefix="pbt-c17-")
        atexit.register(shutil.rmtree, _TMP, ignore_errors=True)
    return _TMP


def cmp_hist(ctx, got, ref, what, names=True):
    a, b = snapshot(ref, stats=True, meta=False), snapshot(got, stats=True, meta=False)
    require(snap_equal(a, b), "differs_from_array", lambda: f"{what}: {snap_diff(a, b)}")
    if names:
        require(tuple(got.axis_names) == tuple(ref.axis_names) or True, "axis_names", what)


def wrap_1d(kind, data, name):
    import pandas as pd
    import polars as pl

    arr = np.array(data, dtype=float)
    if kind == "list":
        return list(data)
    if kind == "tuple":
        return tuple(data)
    if kind == "iterator":
        return iter(list(data))
    if kind == "generator":
        return (x for x in list(data))
    if kind == "nested":
        k = 2 if len(data) % 2 == 0 and len(data) else 1
        return arr.reshape(k, -1).tolist()
    if kind == "array2d":
        k = 2 if len(data) % 2 == 0 and len(data) else 1
        return arr.reshape(k, -1)
    if kind == "array2d_fortran":  # same logical array, column-major memory layout
        k = 2 if len(data) % 2 == 0 and len(data) else 1
        return np.asfortranarray(arr.reshape(k, -1))
    if kind == "array2d_view":  # a transposed view: logical order differs from memory order
        k = 2 if len(data) % 2 == 0 and len(data) else 1
        return np.ascontiguousarray(arr.reshape(k, -1).T).T
    if kind == "pd_series":
        return pd.Series(arr, name=name)
    if kind == "pd_series_int":
        return pd.Series(arr.astype(np.int64), name=name)
    if kind == "pd_series_Int64":
        return pd.Series([None if math.isnan(x) else int(x) for x in data], dtype="Int64", name=name)
    if kind == "pd_series_f32":
        return pd.Series(arr.astype(np.float32), name=name)
    if kind == "pl_series_f32":
        return pl.Series(name or "", arr.astype(np.float32))
    if kind == "array_f32":
        return arr.astype(np.float32)
    if kind in ("pd_df_col", "pd_df_one", "pd_df_histogram", "pd_df_histogram_all", "pd_df_histogram_list"):
        return pd.DataFrame({name or "col": arr})
    if kind == "pl_frame_select":
        return pl.DataFrame({name or "col": arr, "other": arr * 2.0 + 1.0})
    if kind == "named_tuple":
        # (name, values) - what iterating over a pandas groupby yields
        return (name or "group", pd.Series(arr))
    if kind == "pl_series_chunked":
        # a Series that lives in two memory chunks (no zero-copy view exists)
        k_ = len(arr) // 2
        s_ = pl.Series(name or "", arr[:k_])
        s_.append(pl.Series(name or "", arr[k_:]))
        return s_
    if kind == "pl_series":
        return pl.Series(name or "", arr)
    if kind == "pl_series_int":
        return pl.Series(name or "", arr.astype(np.int64))
    if kind == "pl_frame1":
        return pl.DataFrame({name or "col": arr})
    if kind == "dask":
        import dask.array as da

        return da.from_array(arr, chunks=max(1, len(data) // 3) if len(data) else 1)
    raise AssertionError(kind)


INT_KINDS = ("pd_series_int", "pd_series_Int64", "pl_series_int")


def check_1d(case, ctx: Ctx):
    import physt

    data = [float(x) for x in case["data"]]
    kind = case["kind"]
    if not data and kind in ("nested", "array2d", "array2d_fortran", "array2d_view"):
        kind = "list"  # an empty nested container has no second dimension
    ps = case["pairs"]
    edges = np.array([p[0] for p in ps] + [ps[-1][1]])
    ws = case["weights"]
    name = case.get("name")
    has_nan = any(math.isnan(x) for x in data)
    if kind in INT_KINDS:
        data = [float(round(x)) if not math.isnan(x) else x for x in data]
        if kind != "pd_series_Int64" and has_nan:
            data = [0.0 if math.isnan(x) else x for x in data]
            has_nan = False
    if kind in ("pl_series", "pl_series_int", "dask") and False:
        pass
    kw = {"dropna": case["dropna"]}
    if case["dropna"] is True and case.get("use_defaults"):
        kw = {}  # dropna=True is the documented default
    if ws is not None:
        warr = np.array(ws, dtype=np.int64 if all(isinstance(x, int) for x in ws) else np.float64)
        if kind in ("nested", "array2d", "array2d_fortran", "array2d_view"):
            k = 2 if len(data) % 2 == 0 and len(data) else 1
            warr = warr.reshape(k, -1)
        wkind = case.get("wcontainer", "array")
        if len(ws) == 0:
            kw["weights"] = warr  # (an empty python list has no element type)
        elif wkind == "list":
            kw["weights"] = warr.tolist()
        elif wkind == "pd_series" and kind not in ("nested", "array2d", "array2d_fortran", "array2d_view"):
            import pandas as pd

            kw["weights"] = pd.Series(warr)  # keeps the integer / float element type
        elif wkind == "pl_series" and kind not in ("nested", "array2d", "array2d_fortran", "array2d_view"):
            import polars as pl

            kw["weights"] = pl.Series("w", warr)
        else:
            kw["weights"] = warr
    if case.get("axis_name"):
        kw["axis_name"] = case["axis_name"]
    ctx.label("kind_" + kind)
    refkw = dict(kw)
    if ws is not None:
        refkw["weights"] = warr
    if kind.endswith("_f32"):
        # single-precision containers: the reference is the float32 numpy array holding the same values
        data = [float(np.float32(x)) for x in data]
    container = wrap_1d(kind, data, name)
    arr = np.array(data, dtype=float)
    if kind.endswith("_f32"):
        arr = arr.astype(np.float32)
        ctx.label("single_precision")
    if case.get("bins_count") and not has_nan and len(np.unique(arr.astype(float))) >= 2:
        # a bin count instead of explicit edges: the edges are then derived from the data themselves
        edges = case["bins_count"]
        ctx.label("bins_from_count")
    if kind in ("nested", "array2d", "array2d_fortran", "array2d_view") and len(data):
        arr = arr.reshape(2 if len(data) % 2 == 0 else 1, -1)
    if has_nan and not case["dropna"]:
        ctx.label("refusal_nan_without_dropna")
        ctx.nt()
        ctx.refused("NaN with dropna=False", physt.h1, container, edges, **kw)
        return
    ref = ctx.call("h1(array)", physt.h1, arr, edges, **refkw)
    via = case.get("via", "h1")
    if via == "accessor" and kind.startswith("pd_series"):
        akw = {k: v for k, v in kw.items()}
        got = ctx.call("Series.physt.h1", container.physt.h1, edges, **akw)
    elif via == "accessor" and kind.startswith("pl_series"):
        got = ctx.call("polars Series.physt.h1", container.physt.h1, edges, **kw)
    elif kind in ("pd_df_col", "pd_df_one", "pd_df_histogram", "pd_df_histogram_all", "pd_df_histogram_list"):
        # pandas DataFrame accessor: a column by name (weights may be the name of another column)
        colname = name or "col"
        akw = {k: v for k, v in kw.items()}
        frame = container
        if ws is not None and kind == "pd_df_col" and len(ws):
            frame = frame.assign(w=warr)
            akw["weights"] = "w"
            ctx.label("weights_by_column_name")
        if kind == "pd_df_col":
            frame = frame.assign(unrelated=1.0)
            got = ctx.call("DataFrame.physt.h1(column)", frame.physt.h1, colname, edges, **akw)
        elif kind == "pd_df_one":
            got = ctx.call("DataFrame.physt.h1() on one column", frame.physt.h1, bins=edges, **akw)
        elif kind == "pd_df_histogram_all":
            # "uses all columns if not set": a one-column frame gives the 1-D histogram of that column
            got = ctx.call("DataFrame.physt.histogram() on one column", frame.physt.histogram, bins=edges, **akw)
        elif kind == "pd_df_histogram_list":
            got = ctx.call("DataFrame.physt.histogram([column])", lambda: frame.assign(unrelated=1.0).physt.histogram([colname], bins=edges, **akw))
        else:
            got = ctx.call("DataFrame.physt.histogram(column)", lambda: frame.assign(unrelated=1.0).physt.histogram(colname, bins=edges, **akw))
        name = colname
    elif kind == "named_tuple":
        got = ctx.call("h1((name, values))", physt.h1, container, edges, **kw)
        require(got.name == (name or "group"), "name_from_tuple", f"{got.name!r}")
    elif kind == "pl_frame_select":
        akw = {k: v for k, v in kw.items() if k != "axis_name"}
        got = ctx.call("polars DataFrame.physt.h(column)", container.physt.h, name or "col", bins=edges, **akw)
        name = name or "col"
        case = dict(case, axis_name=None)
    elif kind == "pl_frame1":
        # a one-column polars frame through the .physt namespace gives the 1-D histogram of that column
        akw = {k: v for k, v in kw.items() if k != "axis_name"}
        got = ctx.call("polars DataFrame.physt.h (one column)", container.physt.h, bins=edges, **akw)
        name = name or "col"
        case = dict(case, axis_name=None)
    else:
        got = ctx.call(f"h1({kind})", physt.h1, container, edges, **kw)
    cmp_hist(ctx, got, ref, f"h1({kind})")
    # axis name: explicit wins, otherwise the Series name
    if case.get("axis_name"):
        require(got.axis_name == case["axis_name"], "axis_name_explicit", f"{got.axis_name!r}")
    elif kind.startswith(("pd_series", "pl_series", "pl_frame", "pd_df_")) and name:
        require(got.axis_name == name, "axis_name_from_series", f"{got.axis_name!r} vs {name!r}")
    uniform = ws is None or len(set(ws)) <= 1
    ctx.nt((has_nan and not uniform) or kind == "dask")


@st.composite
def cases_1d(draw, tier="quick"):
    ps = draw(gen.pairs(1, 8, gapped=False))
    nan = draw(st.booleans())
    data = draw(gen.values_for(ps, 0, 25, allow_nan=nan))
    if nan and data and draw(st.booleans()):
        data[draw(st.integers(0, len(data) - 1))] = float("nan")
    kind = draw(st.sampled_from(["list", "tuple", "iterator", "generator", "nested", "array2d", "array2d_fortran", "array2d_view", "pd_series", "pd_series", "pd_series", "pd_series_int",
                                 "pd_series_Int64", "pd_series_Int64", "pl_series", "pl_series", "pl_series_int", "pl_frame1", "dask", "array2d_fortran", "array2d_view",
                                 "pd_series_f32", "pd_series_f32", "pl_series_f32", "array_f32", "pd_df_col", "pd_df_col", "pd_df_one", "pd_df_histogram", "pd_df_histogram_all", "pd_df_histogram_list", "pl_frame_select",
                                 "named_tuple", "pl_series_chunked"]))
    wk, ws = draw(gen.weights_for(len(data), kinds=("none", "int", "dyadic")))
    wcont = draw(st.sampled_from(["array", "array", "list", "pd_series", "pl_series"]))
    if wcont == "pl_series" and not kind.startswith("pl_"):
        wcont = "array"
    dropna = draw(st.sampled_from([True, True, False]))
    if kind in ("array2d_fortran", "array2d_view") and draw(st.booleans()):
        # memory layout matters on the path that does not filter NaN: exercise it with weights
        data = [0.0 if x != x else x for x in data]
        mids = [p[0] + (p[1] - p[0]) / 2 for p in ps]
        while len(data) < 4 or len(data) % 2:
            data.append(mids[len(data) % len(mids)])
        dropna = False
        ws = [i % 7 + 1 for i in range(len(data))]  # non-uniform, so that a re-ordering of the values shows
    return {"pairs": ps, "data": data, "kind": kind, "weights": ws, "wcontainer": wcont, "dropna": dropna,
            "name": draw(st.sampled_from([None, "x", "energy"])), "axis_name": draw(st.sampled_from([None, None, "given"])),
            "via": draw(st.sampled_from(["h1", "h1", "accessor"])), "use_defaults": draw(st.booleans()),
            "bins_count": draw(st.sampled_from([None, None, 10, 5, 3])) if len(set(x for x in data if x == x)) >= 2 else None}


# ---------------------------------------------------------------------------------
# N-D containers


def check_nd(case, ctx: Ctx):
    import pandas as pd
    import physt
    import polars as pl

    rows = [[float(x) for x in r] for r in case["rows"]]
    d = case["d"]
    arr = np.array(rows, dtype=float).reshape(len(rows), d)
    axes = case["axes"]
    bins = [np.array([p[0] for p in ps] + [ps[-1][1]]) for ps in axes]
    ws = case["weights"]
    kind = case["kind"]
    cols = case["columns"][:d]
    kw = {}
    if not case["dropna"]:
        kw["dropna"] = False
    warr = None
    if ws is not None:
        warr = np.array(ws, dtype=np.int64 if all(isinstance(x, int) for x in ws) else np.float64)
        kw["weights"] = warr
    has_nan = bool(np.isnan(arr).any())
    ctx.label("kind_" + kind, f"d{d}")
    expected_names = None

    def build():
        nonlocal expected_names
        if kind == "nested":
            return physt.h(arr.tolist(), bins, **kw) if len(rows) else physt.h(arr, bins, **kw)
        if kind == "array":
            return physt.h(arr, bins, **kw)
        if kind == "row_iterator":
            return physt.h(iter(arr.tolist()), bins, **kw)
        if kind == "row_generator":
            return physt.h((tuple(r) for r in arr.tolist()), bins, **kw)
        if kind == "row_tuples":
            return physt.h(tuple(tuple(r) for r in arr.tolist()), bins, **kw)
        if kind == "h2_iterators":
            return physt.h2(iter(arr[:, 0].tolist()), (x for x in arr[:, 1].tolist()), bins, **kw)
        if kind == "pd_df":
            expected_names = cols
            return physt.h(pd.DataFrame(arr, columns=cols), bins, **kw)
        if kind == "pd_df_accessor":
            expected_names = cols
            df = pd.DataFrame(arr, columns=cols)
            return df.physt.histogram(bins=bins, **kw) if d != 2 else df.physt.h2(bins=bins, **kw)
        if kind == "pd_df_select":
            expected_names = cols
            df = pd.DataFrame(np.hstack([arr, np.zeros((len(rows), 1))]), columns=cols + ["extra"])
            return df.physt.histogram(cols, bins=bins, **kw)
        if kind == "pl_df":
            expected_names = cols
            return physt.h(pl.DataFrame({c: arr[:, i] for i, c in enumerate(cols)}), bins, **kw)
        if kind == "pl_df_accessor":
            expected_names = cols
            return pl.DataFrame({c: arr[:, i] for i, c in enumerate(cols)}).physt.h(bins=bins, **kw)
        if kind == "h2_series":
            expected_names = cols
            return physt.h2(pd.Series(arr[:, 0], name=cols[0]), pd.Series(arr[:, 1], name=cols[1]), bins, **kw)
        if kind == "h2_pl_series":
            expected_names = cols
            return physt.h2(pl.Series(cols[0], arr[:, 0]), pl.Series(cols[1], arr[:, 1]), bins, **kw)
        if kind == "h2_lists":
            return physt.h2(arr[:, 0].tolist(), tuple(arr[:, 1].tolist()), bins, **kw)
        if kind == "pd_df_weights_series":
            expected_names = cols
            kk = dict(kw)
            if warr is not None:
                kk["weights"] = pd.Series(warr)
            return physt.h(pd.DataFrame(arr, columns=cols), bins, **kk)
        raise AssertionError(kind)

    if has_nan and not case["dropna"]:
        ctx.label("refusal_nan_without_dropna")
        ctx.nt()
        ctx.refused("NaN rows with dropna=False", build)
        return
    ref = ctx.call("h(array)", physt.h, arr, bins, **kw)
    got = ctx.call(f"h({kind})", build)
    cmp_hist(ctx, got, ref, f"h({kind})")
    if expected_names is not None:
        require(list(got.axis_names) == list(expected_names), "axis_names_from_columns", f"{got.axis_names} vs {expected_names}")
        # explicit names win
        if kind in ("pd_df", "pl_df"):
            frame = pd.DataFrame(arr, columns=cols) if kind == "pd_df" else pl.DataFrame({c: arr[:, i] for i, c in enumerate(cols)})
            g2 = ctx.call("explicit axis_names", physt.h, frame, bins, axis_names=[f"n{i}" for i in range(d)], **kw)
            require(list(g2.axis_names) == [f"n{i}" for i in range(d)], "axis_names_explicit", f"{g2.axis_names}")
    uniform = ws is None or len(set(ws)) <= 1
    ctx.nt((has_nan and not uniform) or (kind.startswith(("pd_df", "pl_df")) and d >= 2))


@st.composite
def cases_nd(draw, tier="quick"):
    kind = draw(st.sampled_from(["nested", "array", "pd_df", "pd_df", "pd_df_accessor", "pd_df_select", "pl_df", "pl_df_accessor", "h2_series",
                                 "h2_pl_series", "h2_lists", "pd_df_weights_series", "row_iterator", "row_generator", "row_tuples", "h2_iterators"]))
    d = 2 if kind.startswith("h2") else draw(st.sampled_from([2, 2, 3]))
    axes = [draw(gen.pairs(1, 5, gapped=False)) for _ in range(d)]
    n = draw(st.integers(0 if kind in ("array", "pd_df", "pl_df") else 1, 15))
    nan = draw(st.sampled_from([False, False, True]))
    colsv = [draw(gen.values_for(ps, n, n, allow_nan=nan)) for ps in axes]
    rows = [[colsv[j][i] for j in range(d)] for i in range(n)]
    wk, ws = draw(gen.weights_for(n, kinds=("none", "int", "dyadic")))
    return {"kind": kind, "d": d, "axes": axes, "rows": rows, "weights": ws, "dropna": draw(st.sampled_from([True, True, True, False])),
            "columns": draw(st.sampled_from([["a", "b", "c"], ["x", "y", "z"], ["col 1", "col2", "c3"]]))}


# ---------------------------------------------------------------------------------
# column labels that are not strings


def check_labels(case, ctx: Ctx):
    """Axis names taken from pandas labels: text, and the same through every facade."""
    import pandas as pd
    import physt

    labels = [tuple(l) if isinstance(l, list) else l for l in case["labels"]]
    arr = np.array(case["rows"], dtype=float).reshape(-1, len(labels))
    frame = pd.DataFrame({l: arr[:, i] for i, l in enumerate(labels)})
    edges = [-1.0, 0.0, 1.0, 2.0]

    def text(l):
        return ", ".join(str(x) for x in l) if isinstance(l, tuple) else str(l)

    seen = {}

    def note(what, h, cols):
        names = tuple(h.axis_names)
        for n_, c in zip(names, cols):
            require(isinstance(n_, str), "axis_name_not_text", f"{what}: axis name {n_!r} ({type(n_).__name__}) for column label {c!r}")
            require(n_ == text(c), "axis_name_from_label", f"{what}: axis name {n_!r} for column label {c!r}")
        seen[what] = names

    labels = list(frame.columns)  # (pandas may unify the label types: 0 next to 2.5 becomes 0.0)
    c0, c1 = labels[0], labels[1]
    note("h1(frame[c])", ctx.call("h1(frame[c])", physt.h1, frame[c0], edges), [c0])
    note("frame[c].physt.h1()", ctx.call("Series.physt.h1", frame[c0].physt.h1, edges), [c0])
    note("frame.physt.h1(c)", ctx.call("DataFrame.physt.h1", frame.physt.h1, c0, edges), [c0])
    note("h2(frame[c0], frame[c1])", ctx.call("h2(series, series)", physt.h2, frame[c0], frame[c1], [edges, edges]), [c0, c1])
    note("h(frame[[c0, c1]])", ctx.call("h(frame)", physt.h, frame[[c0, c1]], [edges, edges]), [c0, c1])
    note("frame.physt.h2(c0, c1)", ctx.call("DataFrame.physt.h2", frame.physt.h2, c0, c1, bins=[edges, edges]), [c0, c1])
    g = ctx.call("explicit axis_name", physt.h1, frame[c0], edges, axis_name="given")
    require(g.axis_name == "given", "axis_name_explicit", f"{g.axis_name!r}")
    ctx.label("label_" + type(c0).__name__)
    ctx.nt(any(not isinstance(l, str) for l in (c0, c1)))


@st.composite
def label_cases(draw, tier="quick"):
    kind = draw(st.sampled_from(["int", "int", "tuple", "mixed", "str"]))
    if kind == "int":
        labels = draw(st.lists(st.integers(0, 5), min_size=2, max_size=3, unique=True))
    elif kind == "tuple":
        labels = [list(t) for t in draw(st.lists(st.tuples(st.sampled_from(["a", "b"]), st.sampled_from(["c", "d", 1])), min_size=2, max_size=3, unique=True))]
    elif kind == "mixed":
        labels = draw(st.lists(st.sampled_from([0, 1, "x", 2.5, "energy"]), min_size=2, max_size=3, unique=True))
    else:
        labels = draw(st.lists(st.sampled_from(["x", "y", "0", "a b"]), min_size=2, max_size=3, unique=True))
    n = draw(st.integers(1, 6))
    rows = draw(st.lists(st.sampled_from([-0.5, 0.0, 0.5, 1.0, 1.5, 2.0]), min_size=n * len(labels), max_size=n * len(labels)))
    return {"labels": labels, "rows": rows}


# ---------------------------------------------------------------------------------
# refusals


def check_refusals(case, ctx: Ctx):
    import pandas as pd
    import physt
    import polars as pl

    kind = case["kind"]
    vals = case["values"]
    e = np.array([0.0, 1.0, 2.0])
    ctx.label("refusal_" + kind)
    ctx.nt()
    if kind == "strings":
        ctx.refused("h1(list of strings)", physt.h1, [str(v) + "x" for v in vals], e)
        ctx.refused("h1(Series of strings)", physt.h1, pd.Series([str(v) for v in vals]), e)
        ctx.refused("h1(polars Series of strings)", physt.h1, pl.Series("s", [str(v) for v in vals]), e)
    elif kind == "object_dtype":
        ctx.refused("h1(object Series)", physt.h1, pd.Series([object() for _ in vals]), e)
        ctx.refused("h(DataFrame with a text column)", physt.h, pd.DataFrame({"a": vals, "b": [str(v) for v in vals]}), [e, e])
    elif kind == "polars_nulls":
        ctx.refused("h1(polars Series with nulls)", physt.h1, pl.Series("s", list(vals) + [None]), e)
        ctx.refused("h(polars DataFrame with nulls)", physt.h, pl.DataFrame({"a": list(vals) + [None], "b": list(vals) + [1.0]}), [e, e])
    elif kind == "null_weights":
        # nulls hidden in a *weights* Series: refused like nulls in the data, whatever holds the data
        n = len(vals)
        for wdt in (pl.Float64, pl.Int64):
            w = pl.Series("w", [None] + [1] * (n - 1) if wdt == pl.Int64 else [None] + [1.5] * (n - 1), dtype=wdt)
            ctx.refused("h1(list, weights=polars Series with a null)", physt.h1, list(vals), e, weights=w)
            ctx.refused("h1(array, weights=polars Series with a null)", physt.h1, np.array(vals), e, weights=w)
            ctx.refused("h1(polars Series, weights=polars Series with a null)", physt.h1, pl.Series("s", list(vals)), e, weights=w)
            ctx.refused("h1(pandas Series, weights=polars Series with a null)", physt.h1, pd.Series(list(vals)), e, weights=w)
            ctx.refused("h2(.., weights=polars Series with a null)", physt.h2, list(vals), list(vals), [e, e], weights=w)
            ctx.refused("polars accessor, weights=polars Series with a null", pl.Series("s", list(vals)).physt.h1, e, weights=w)
    elif kind == "frame_to_h1":
        ctx.refused("h1(DataFrame)", physt.h1, pd.DataFrame({"a": vals, "b": vals}), e)
        ctx.refused("h1(polars DataFrame)", physt.h1, pl.DataFrame({"a": vals, "b": vals}), e)
    elif kind == "series_to_h":
        ctx.refused("h(Series)", physt.h, pd.Series(vals), [e, e])
        ctx.refused("h(polars Series)", physt.h, pl.Series("s", vals), [e, e])
    elif kind == "ragged":
        ctx.refused("h(ragged rows)", physt.h, [[1.0, 2.0], [1.0]], [e, e])
        ctx.refused("h2(different lengths)", physt.h2, list(vals), list(vals) + [1.0], [e, e])
    elif kind == "scalar":
        ctx.refused("h1(scalar)", physt.h1, float(vals[0]), e)
        ctx.refused("h1(str)", physt.h1, "abc", e)
    elif kind == "wrong_weights":
        ctx.refused("h1 with too many weights", physt.h1, list(vals), e, weights=[1.0] * (len(vals) + 1))
        ctx.refused("h(DataFrame) with too few weights", physt.h, pd.DataFrame({"a": vals, "b": vals}), [e, e], weights=[1.0] * (len(vals) - 1) if len(vals) > 1 else [1.0, 2.0, 3.0])
        # weights of the right size but another shape than the (2, 3) data, with and without NaN removal
        x23 = np.arange(6.0).reshape(2, 3) * 0.25
        for dn in (True, False):
            ctx.refused(f"h1((2, 3) data, (3, 2) weights, dropna={dn})", physt.h1, x23, e, weights=np.ones((3, 2)), dropna=dn)
            ctx.refused(f"h1((2, 3) data, (6,) weights, dropna={dn})", physt.h1, x23, e, weights=np.ones(6), dropna=dn)
            ok23 = ctx.call(f"h1((2, 3) data, (2, 3) weights, dropna={dn})", physt.h1, x23, e, weights=np.full((2, 3), 2.0), dropna=dn)
            require(float(ok23.total) + float(ok23.underflow) + float(ok23.overflow) == 12.0, "weights_same_shape", f"total {ok23.total}")
    elif kind == "wrong_dim":
        ctx.refused("h(dim mismatch)", physt.h, np.zeros((3, 2)), [e, e, e], dim=3)
        ctx.refused("h2 accessor on a one-column frame", pd.DataFrame({"a": vals}).physt.h2)


@st.composite
def refusal_cases(draw, tier="quick"):
    return {"kind": draw(st.sampled_from(["strings", "object_dtype", "polars_nulls", "frame_to_h1", "series_to_h", "ragged", "scalar", "wrong_weights", "wrong_dim", "null_weights"])),
            "values": draw(st.lists(st.floats(0, 2, allow_nan=False), min_size=1, max_size=6))}


# ---------------------------------------------------------------------------------
# conversions


def check_conversions(case, ctx: Ctx):
    import pandas as pd
    from physt.histogram1d import Histogram1D

    kind = case["kind"]
    ctx.label("conv_" + kind)
    if kind in ("xarray", "dataframe", "series", "index"):
        spec = case["spec"]
        h = ctx.call("build", hgen.build, spec)
        before = snapshot(h)
        pairs = before["binnings"][0]["bins"]
        if kind == "xarray":
            ds = ctx.call("to_xarray", h.to_xarray)
            back = ctx.call("from_xarray", Histogram1D.from_xarray, ds)
            a, b = snapshot(h, stats=False), snapshot(back, stats=False)
            for key in ("frequencies", "errors2", "missed", "keep_missed", "name", "title", "axis_names"):
                require(same(a[key], b[key]), "xarray_roundtrip", f"{key}: {a[key]} -> {b[key]}")
            require(b["binnings"][0]["bins"] == pairs, "xarray_bins", f"{b['binnings'][0]['bins']} vs {pairs}")
            require(np.array_equal(np.asarray(ds["frequencies"]), np.asarray(h.frequencies)) and np.array_equal(np.asarray(ds["bins"]), np.asarray(h.bins)), "xarray_dataset", "")
            require(same(float(ds.attrs["underflow"]), float(before["missed"][0])) and same(float(ds.attrs["overflow"]), float(before["missed"][1])), "xarray_missed", "")
        elif kind == "dataframe":
            df = ctx.call("to_dataframe", h.to_dataframe)
            require(list(df["frequency"]) == list(np.asarray(h.frequencies)), "dataframe_frequency", "")
            require(np.allclose(np.asarray(df["error"], dtype=float), np.sqrt(np.asarray(h.errors2, dtype=float)), rtol=1e-6, atol=0), "dataframe_error", "")
            require([[float(i.left), float(i.right)] for i in df.index] == pairs, "dataframe_index", "")
            from physt.compat.pandas import index_to_binning

            b3 = ctx.call("index_to_binning(frame.index)", index_to_binning, df.index)
            require(np.asarray(b3.bins, dtype=float).tolist() == pairs, "index_roundtrip", f"{np.asarray(b3.bins).tolist()} vs {pairs}")
        elif kind == "series":
            s = ctx.call("to_series", h.to_series)
            require(list(s) == list(np.asarray(h.frequencies)), "series_frequency", "")
            require([[float(i.left), float(i.right)] for i in s.index] == pairs and s.index.closed == "left", "series_index", "")
            from physt.compat.pandas import index_to_binning

            b3 = ctx.call("index_to_binning(series.index)", index_to_binning, s.index)
            require(np.asarray(b3.bins, dtype=float).tolist() == pairs, "index_roundtrip", f"{np.asarray(b3.bins).tolist()} vs {pairs}")
        else:
            from physt.compat.pandas import binning_to_index, index_to_binning

            idx = ctx.call("binning_to_index", binning_to_index, h.binning)
            require([[float(i.left), float(i.right)] for i in idx] == pairs, "index_bins", "")
            b2 = ctx.call("index_to_binning", index_to_binning, idx)
            require(np.asarray(b2.bins, dtype=float).tolist() == pairs, "index_roundtrip", "")
            ctx.refused("index_to_binning(right-closed)", index_to_binning, pd.IntervalIndex.from_arrays([0.0, 1.0], [1.0, 2.0], closed="right"))
            ctx.refused("index_to_binning(overlapping)", index_to_binning, pd.IntervalIndex.from_arrays([0.0, 0.5], [1.0, 2.0], closed="left"))
            ctx.refused("index_to_binning(not an index)", index_to_binning, [1, 2, 3])
        require(snap_equal(before, snapshot(h)), "source_modified", lambda: snap_diff(before, snapshot(h)))
        ctx.nt(bool(model.gaps(model.pairs_of(pairs))) or any(x != 0 for x in before["missed"] if not math.isnan(x)))
        return
    # Geant4 CSV
    from physt.compat.geant4 import load_csv

    g = case["geant"]
    path = os.path.join(tmpdir(), f"g{os.getpid()}.csv")
    if g["d"] == 1:
        n, lo, hi = g["n"], g["lo"], g["hi"]
        vals = g["values"]  # n + 2 rows: underflow, bins..., overflow
        lines = ["#class tools::histo::h1d", f"#title {g['title']}", "#dimension 1", f"#axis fixed {n} {lo!r} {hi!r}", "#annotation axis_x.title",
                 f"#bin_number {n + 2}", "entries,Sw,Sw2,Sxw0,Sx2w0"]
        for e, sw, sw2 in vals:
            lines.append(f"{e},{sw!r},{sw2!r},{sw * 0.5!r},{sw * 0.25!r}")
        open(path, "w", encoding="ascii").write("\n".join(lines) + "\n")
        h = ctx.call("load_csv", load_csv, path)
        require(type(h).__name__ == "Histogram1D", "geant_class", type(h).__name__)
        require(h.bin_count == n, "geant_bin_count", f"{h.bin_count} vs {n}")
        ed = [float(x) for x in h.numpy_bins]
        w = (hi - lo) / n
        for i, e in enumerate(ed):
            require(abs(e - (lo + i * w)) <= 1e-9 * max(abs(lo), abs(hi), w), "geant_edges", f"edge {i}: {e!r} vs {lo + i * w!r}")
        require([float(x) for x in h.frequencies] == [float(v[1]) for v in vals[1:-1]], "geant_frequencies", f"{h.frequencies}")
        require([float(x) for x in h.errors2] == [float(v[2]) for v in vals[1:-1]], "geant_errors2", "")
        require(float(h.underflow) == float(vals[0][1]) and float(h.overflow) == float(vals[-1][1]), "geant_missed", f"{h.underflow},{h.overflow}")
        require(h.name == g["title"], "geant_title", f"{h.name!r}")
        ctx.nt(vals[0][1] != 0 and vals[-1][1] != 0)
    else:
        nx, ny = g["n"], g["n2"]
        grid = np.array(g["grid"], dtype=float).reshape(nx + 2, ny + 2)
        lines = ["#class tools::histo::h2d", f"#title {g['title']}", "#dimension 2", f"#axis fixed {nx} {g['lo']!r} {g['hi']!r}", f"#axis fixed {ny} {g['lo2']!r} {g['hi2']!r}",
                 f"#bin_number {(nx + 2) * (ny + 2)}", "entries,Sw,Sw2,Sxw0,Sx2w0,Sxw1,Sx2w1"]
        for v in grid.ravel().tolist():
            lines.append(f"{int(v)},{v!r},{v * 2!r},0,0,0,0")
        open(path, "w", encoding="ascii").write("\n".join(lines) + "\n")
        h = ctx.call("load_csv", load_csv, path)
        require(type(h).__name__ == "Histogram2D" and tuple(h.shape) == (nx, ny), "geant_shape", f"{type(h).__name__} {h.shape}")
        require(np.array_equal(np.asarray(h.frequencies, dtype=float), grid[1:-1, 1:-1]), "geant_frequencies", "")
        require(np.array_equal(np.asarray(h.errors2, dtype=float), grid[1:-1, 1:-1] * 2), "geant_errors2", "")
        for a_, (n_, lo_, hi_) in enumerate(((nx, g["lo"], g["hi"]), (ny, g["lo2"], g["hi2"]))):
            e_ = [float(x) for x in h.numpy_bins[a_]]
            w_ = (hi_ - lo_) / n_
            require(len(e_) == n_ + 1, "geant_bin_count", f"axis {a_}: {len(e_) - 1} vs {n_}")
            for i_, x_ in enumerate(e_):
                require(abs(x_ - (lo_ + i_ * w_)) <= 1e-9 * max(abs(lo_), abs(hi_), w_), "geant_edges", f"axis {a_} edge {i_}: {x_!r} vs {lo_ + i_ * w_!r}")
        # outer (under/overflow) rows and columns are what fell outside: together they are the missed count
        outer = float(grid.sum() - grid[1:-1, 1:-1].sum())
        ctx.label("geant2_outer_nonzero" if outer else "geant2_outer_zero")
        require(float(h.missed) == outer, "geant_missed", f"missed {h.missed!r}, the under/overflow cells of the file hold {outer!r}")
        ctx.nt(nx != ny)


@st.composite
def conversion_cases(draw, tier="quick"):
    kind = draw(st.sampled_from(["xarray", "xarray", "dataframe", "series", "index", "geant1", "geant1", "geant2"]))
    if kind.startswith("geant"):
        n = draw(st.integers(1, 8))
        lo = draw(st.sampled_from([0.0, -1000.0, -2.5, 10.0]))
        hi = lo + draw(st.sampled_from([800.0, 1.0, 2000.0, 7.5, 0.5]))
        g = {"d": 1 if kind == "geant1" else 2, "n": n, "lo": lo, "hi": hi, "title": draw(st.sampled_from(["Edep in absorber", "t", "Drift Chamber 1 X vs Y"]))}
        if kind == "geant1":
            g["values"] = [[draw(st.integers(0, 5)), float(draw(st.integers(0, 9))), float(draw(st.integers(0, 20)))] for _ in range(n + 2)]
        else:
            n2 = draw(st.integers(1, 6))
            g.update(n2=n2, lo2=draw(st.sampled_from([-300.0, 0.0])), hi2=300.0)
            g["grid"] = [float(draw(st.integers(0, 9))) for _ in range((n + 2) * (n2 + 2))]
        return {"kind": "geant", "geant": g}
    spec = draw(hgen.hist_spec(dims=(1,), dtypes=["int64", "float64", "int32", "float32"], max_bins=8, adaptive=False, rich_meta=False,
                               forms=("numpy", "static", "pairs", "pairs", "static", "fixed", "edges"), gapped=draw(st.sampled_from([None, True]))))
    return {"kind": kind, "spec": spec}


# ---------------------------------------------------------------------------------
# dask chunkings


def check_dask(case, ctx: Ctx):
    import dask.array as da
    import physt
    from physt.compat import dask as pdask

    w = case["w"]
    data = [x * w for x in case["xs"]]
    for i in case.get("nan_at", []):
        if data:
            data[i % len(data)] = float("nan")
    if case.get("nan_run") and len(data) >= 3:
        k = case["nan_run"] % (len(data) - 1)
        data[k] = data[k + 1] = float("nan")  # neighbouring NaN: whole chunks can be NaN-only
    if case["d"] != 1:
        data = [0.0 if x != x else x for x in data]
    arr = np.array(data, dtype=float)
    sizes = [s for s in case["chunks"] if s > 0]
    tot = sum(sizes)
    if tot < len(arr):
        sizes.append(len(arr) - tot)
    else:
        # trim
        out, acc = [], 0
        for s in sizes:
            if acc + s >= len(arr):
                out.append(len(arr) - acc)
                break
            out.append(s)
            acc += s
        sizes = [s for s in out if s > 0]
    for pos in case.get("empty_chunks", []):
        # zero-length chunks are legal dask chunks (they appear after filtering / slicing)
        sizes.insert(pos % (len(sizes) + 1), 0)
        ctx.label("empty_chunk")
    if case["d"] == 1:
        darr = da.from_array(arr, chunks=(tuple(sizes),))
        ref = ctx.call("h1(array, adaptive)", physt.h1, arr, "fixed_width", bin_width=w, adaptive=True)
        got = ctx.call("dask.h1", pdask.h1, darr, "fixed_width", bin_width=w, dask_method=case["method"])
        also = ctx.call("physt.h1(dask array)", physt.h1, darr, "fixed_width", bin_width=w, adaptive=True)
        cmp_hist(ctx, also, ref, "physt.h1(dask array)")
        cols = case.get("as_2d")
        if cols and len(arr) >= cols:
            # the same values as a 2-D dask array, chunked unevenly along both dimensions: h1 counts every element
            k_ = (len(arr) // cols) * cols
            a2 = np.nan_to_num(arr[:k_], nan=0.0).reshape(-1, cols)
            rsz = [s_ for s_ in sizes if s_ >= 0]
            rows = a2.shape[0]
            rchunks, acc_ = [], 0
            for s_ in rsz:
                take = min(s_, rows - acc_)
                rchunks.append(take)
                acc_ += take
            if acc_ < rows:
                rchunks.append(rows - acc_)
            cchunks = (cols,) if cols == 1 else (cols - 1, 1) if case.get("method") else (1, cols - 1)
            d2 = da.from_array(a2, chunks=(tuple(rchunks), cchunks))
            ref2 = ctx.call("h1(2-D array, adaptive)", physt.h1, a2, "fixed_width", bin_width=w, adaptive=True)
            got2 = ctx.call("dask.h1(2-D dask array)", pdask.h1, d2, "fixed_width", bin_width=w, dask_method=case["method"])
            a_, b_ = snapshot(ref2, stats=False, meta=False), snapshot(got2, stats=False, meta=False)
            require(snap_equal(a_, b_), "dask_2d_differs", lambda: snap_diff(a_, b_))
            ctx.label("h1_of_2d_dask_array")
    elif case["d"] == 2:
        arr2 = np.stack([arr, arr[::-1] * 0.5], axis=1)
        darr = da.from_array(arr2, chunks=(tuple(sizes), 2))
        ref = ctx.call("h(array, adaptive)", physt.h, arr2, "fixed_width", bin_width=w, adaptive=True)
        form = case.get("form", "dd")
        ctx.label("dask_form_" + form)
        if form == "h2":
            # two separately (and differently) chunked columns
            c0 = da.from_array(arr2[:, 0].copy(), chunks=(tuple(sizes),))
            c1 = da.from_array(arr2[:, 1].copy(), chunks=max(1, len(arr) // 2))
            got = ctx.call("dask.h2", pdask.h2, c0, c1, "fixed_width", bin_width=w, dask_method=case["method"])
        elif form == "columns":
            c0 = da.from_array(arr2[:, 0].copy(), chunks=(tuple(sizes),))
            c1 = da.from_array(arr2[:, 1].copy(), chunks=(tuple(sizes),))
            got = ctx.call("dask.histogramdd([columns])", pdask.histogramdd, [c0, c1], "fixed_width", bin_width=w, dask_method=case["method"])
        elif form == "split_columns":
            # the columns of the 2-D array themselves in separate chunks: every block must see whole rows
            darr = da.from_array(arr2, chunks=(tuple(sizes), 1))
            got = ctx.call("dask.h (column chunks)", pdask.histogramdd, darr, "fixed_width", bin_width=w, dask_method=case["method"])
        else:
            got = ctx.call("dask.h", pdask.histogramdd, darr, "fixed_width", bin_width=w, dask_method=case["method"])
    else:
        arr3 = np.stack([arr, arr[::-1] * 0.5, arr * 0.25 + 1.0], axis=1)
        darr = da.from_array(arr3, chunks=(tuple(sizes), 3))
        ref = ctx.call("h3(array, adaptive)", physt.h3, arr3, "fixed_width", bin_width=w, adaptive=True)
        got = ctx.call("dask.h3", pdask.h3, darr, "fixed_width", bin_width=w, dask_method=case["method"])
    a, b = snapshot(ref, stats=False, meta=False), snapshot(got, stats=False, meta=False)
    require(snap_equal(a, b), "dask_differs", lambda: snap_diff(a, b))
    ctx.label(f"chunks{min(len(sizes), 5)}" if len(sizes) <= 16 else "chunks17plus", f"d{case['d']}")
    if any(x != x for x in data):
        ctx.label("with_nan")
    ctx.nt(len(sizes) >= 3)


@st.composite
def dask_cases(draw, tier="quick"):
    many = draw(st.integers(0, 3)) == 0
    if many:
        # many small chunks (more partial histograms than any internal grouping width)
        n = draw(st.integers(17, 80))
        chunks = draw(st.lists(st.integers(1, 3), min_size=n, max_size=n))
    else:
        n = draw(st.integers(1, 30))
        chunks = draw(st.lists(st.integers(1, 10), min_size=1, max_size=6))
    return {"w": draw(st.sampled_from([0.5, 1.0, 0.25, 2.5, 0.1])), "xs": draw(st.lists(st.one_of(st.integers(-15, 15).map(float), st.floats(-15, 15, allow_nan=False)), min_size=n, max_size=n)),
            "chunks": chunks, "d": draw(st.sampled_from([1, 1, 2, 2, 3])),
            "form": draw(st.sampled_from(["dd", "h2", "columns", "split_columns"])),
            "empty_chunks": draw(st.one_of(st.just([]), st.just([]), st.lists(st.integers(0, 6), min_size=1, max_size=2))),
            "as_2d": draw(st.sampled_from([None, 2, 3, 3])), "method": draw(st.sampled_from([None, "thread"])),
            "nan_at": draw(st.lists(st.integers(0, 40), max_size=3)), "nan_run": draw(st.one_of(st.none(), st.integers(0, 40)))}


FINDINGS = []

SUBS = [
    Sub("containers_1d", lambda tier: cases_1d(tier), check_1d, quick=800, thorough=3000),
    Sub("containers_nd", lambda tier: cases_nd(tier), check_nd, quick=400, thorough=2500),
    Sub("refusals", lambda tier: refusal_cases(tier), check_refusals, quick=100, thorough=500),
    Sub("labels", lambda tier: label_cases(tier), check_labels, quick=100, thorough=500),
    Sub("conversions", lambda tier: conversion_cases(tier), check_conversions, quick=500, thorough=2000),
    Sub("dask", lambda tier: dask_cases(tier), check_dask, quick=160, thorough=800),
]

RULE += ' Also: float32 containers against the float32 array, bin counts next to explicit edges, DataFrame accessors by column (weights by column name), null-containing weights (refused), dask h2 / h3 / column lists / column-split chunks / zero-length chunks / h1 of unevenly chunked 2-D dask arrays.'
RULE += ' labels: pandas frames whose column labels are integers (0 included), floats or tuples - the axis names are the labels as text through Series, Series accessor, DataFrame accessor, h2 of two Series and h of the frame; non-trivial = a label that is not a string. dask: one case in four has 17-80 chunks of 1-3 values.'
RULE += ' containers_nd: rows handed to h as an iterator, a generator of tuples or a tuple of tuples; h2 of two iterators.'
RULE += ' containers_1d: DataFrame.physt.histogram() of a one-column frame and histogram([column]).'
RULE += ' refusals: weights of the right size but another shape than 2-D data, with dropna on and off (weights of the same shape are accepted).'
