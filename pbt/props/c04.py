"""C04 — adaptive fixed-width histograms never lose a value when bins grow."""
from __future__ import annotations

import itertools
import math
from fractions import Fraction

import numpy as np
from hypothesis import strategies as st

from pbt import gen, model
from pbt.core import Ctx, Finding, Sub, Violation, require
from pbt.model import F

LEVEL = "exploration"
RULE = (
    "A case is a history on an adaptive fixed-width histogram (d = 1..3; width from dyadic / decimal / scaled "
    "classes; align on/off; optional bin_shift; started empty or pre-filled from data): steps fill(v, w) and "
    "fill_n(batch, weights) (empty batches included) with values that are exact multiples k*w, decimal literals "
    "round(k*w, 6), +-1 ulp neighbours of multiples and of the *current* edges, the current first/last edge, and "
    "far values (the spanned range is bounded to ~2500 bins per axis in 1-D, fewer in N-D). After every step: "
    "nothing in underflow/overflow/missed, total = weight entered, every value ever entered is inside the bin the "
    "histogram reports for it, bins contiguous and on the grid, span tight (first bin holds the minimum, last bin "
    "the maximum), per-bin contents equal the exact model over the current bins. Non-trivial: growth on both sides, "
    "or a value within 1 ulp of an edge / an exact multiple of a non-dyadic width, or an empty batch. "
    "A second sub-check derives non-adaptive fixed_width / pretty / integer binnings from data and requires full "
    "coverage. distinct = SHA-1 of the canonical history."
)
ASSUMPTIONS = [
    "values are finite and the spanned range is bounded (memory is the limit the code imposes)",
    "weights are ints / dyadic rationals (exact sums)",
    "the last bin of a 1-D histogram is right-inclusive (C01), so a value equal to the last edge counts as inside",
]

WIDTHS = [0.1, 0.2, 0.3, 0.7, 0.01, 2.5, 3.3, 1.0, 0.5, 0.25, 1e-3, 7.0, 10.0, 1e3, 1e-6, 0.15, 2.0 ** -20, 1e6, 0.9, 1.1]
DYADIC_W = {1.0, 0.5, 0.25, 2.0 ** -20}


def resolve_value(spec, w, edges):
    """Turn a value specification into a float (needs the *current* edges)."""
    kind = spec[0]
    if kind == "mult":  # k*w (+ ulps)
        v = spec[1] * w
    elif kind == "dec":
        v = round(spec[1] * w, 6)
    elif kind == "raw":
        v = spec[1] * w
    elif kind == "edge":
        if len(edges) == 0:
            v = spec[1] * w
        else:
            v = float(edges[spec[1] % len(edges)])
    else:
        raise AssertionError(kind)
    ulps = spec[2] if len(spec) > 2 else 0
    for _ in range(abs(ulps)):
        v = math.nextafter(v, math.inf if ulps > 0 else -math.inf)
    return float(v)


def axis_checks(ctx, edges, w, origin_hint, what):
    """Contiguity and grid alignment of one axis."""
    n = len(edges) - 1
    require(n >= 1, "no_bins", what)
    for a, b in zip(edges[:-1], edges[1:]):
        require(b > a, "edges_not_rising", f"{what}: {a!r} {b!r}")
        require(abs((b - a) - w) <= 1e-9 * w + 4 * math.ulp(max(abs(a), abs(b))), "width", f"{what}: {b - a!r} vs {w!r}")
    origin = origin_hint if origin_hint is not None else edges[0]
    prev = None
    for e in edges:
        q = (e - origin) / w
        k = round(q)
        tol = 1e-9 * max(1.0, abs(q)) + 8 * math.ulp(max(abs(e), abs(origin), w)) / w
        require(abs(q - k) <= tol, "off_grid", f"{what}: edge {e!r} = origin {origin!r} + {q!r}*w")
        if prev is not None:
            require(k == prev + 1, "grid_step", f"{what}: indices {prev} -> {k}")
        prev = k


def check_1d(case, ctx: Ctx):
    import physt

    w = float(case["w"])
    kwargs = {"bin_width": w, "adaptive": True}
    if not case["align"]:
        kwargs["align"] = False
    if case.get("shift") is not None:
        kwargs["bin_shift"] = case["shift"] * w
    values, weights = [], []
    pre = case.get("prefill")
    if pre:
        pv = [resolve_value(s, w, []) for s in pre]
        h = ctx.call("h1(prefill, adaptive)", physt.h1, np.array(pv), "fixed_width", **kwargs)
        values += pv
        weights += [1] * len(pv)
        ctx.label("prefilled")
    else:
        h = ctx.call("h1(None, adaptive)", physt.h1, None, "fixed_width", **kwargs)
        ctx.label("empty_start")
    require(h.is_adaptive(), "not_adaptive", "")
    origin = (case["shift"] * w) if (case.get("shift") is not None and case["align"]) else (0.0 if case["align"] else None)
    grew_left = grew_right = False
    special = False

    def invariant(step):
        nonlocal origin
        if not values:
            return
        edges = [float(x) for x in h.numpy_bins]
        ps = model.pairs_of(h.bins)
        require(ps == model.pairs_from_edges(edges), "bins_vs_numpy_bins", step)
        axis_checks(ctx, edges, w, origin, step)
        if origin is None:
            origin = edges[0]
        u, o = float(h.underflow), float(h.overflow)
        require(u == 0 and o == 0, "lost_value", f"{step}: underflow={u} overflow={o}; values={values[-3:]} edges={edges[:2]}..{edges[-2:]}")
        require(float(h.inner_missed) == 0, "inner_missed", step)
        tw = sum((F(x) for x in weights), Fraction(0))
        require(F(h.total) == tw, "total", f"{step}: total {h.total} entered {float(tw)}")
        m = model.hist1d(ps, values, weights)
        for i in range(len(ps)):
            require(F(h.frequencies[i]) == m["freq"][i], "content_moved", lambda: f"{step}: bin {i} {ps[i]}: {h.frequencies[i]!r} want {float(m['freq'][i])}")
            require(F(h.errors2[i]) == m["err2"][i], "errors2", lambda: f"{step}: bin {i}")
        for v in values:
            i = h.find_bin(v)
            require(isinstance(i, int) and 0 <= i < len(ps), "value_outside", f"{step}: find_bin({v!r}) = {i!r}")
            l, r = ps[i]
            require(l <= v < r or (i == len(ps) - 1 and v == r), "value_not_in_reported_bin", f"{step}: {v!r} not in [{l!r},{r!r})")
        lo, hi = min(values), max(values)
        require(h.find_bin(lo) == 0, "superfluous_left_bin", f"{step}: min {lo!r} first bins {ps[:2]}")
        require(h.find_bin(hi) == len(ps) - 1, "superfluous_right_bin", f"{step}: max {hi!r} last bins {ps[-2:]}")

    invariant("after construction")
    if case.get("peek_first"):
        ctx.maybe(lambda: getattr(h, case["peek_first"]))
        ctx.label("peek_first")
        if not values:
            ctx.label("peek_on_empty")
            special = True
    for k, op in enumerate(case["ops"]):
        edges_now = [float(x) for x in h.numpy_bins] if h.bin_count else []
        first, last = (edges_now[0], edges_now[-1]) if edges_now else (None, None)
        if op[0] == "peek":
            # reading public attributes at any time (also on the still empty histogram) must not change behaviour
            ctx.maybe(lambda: getattr(h, op[1]))
            ctx.label("peek")
            if not values:
                ctx.label("peek_on_empty")
                special = True
            invariant(f"step {k} peek {op[1]}")
            continue
        if op[0] == "fill":
            v = resolve_value(op[1], w, edges_now)
            wt = op[2]
            arg = v
            if case.get("scalar_type") == "float32" and abs(v) < 1e30:
                # the value as a single-precision numpy scalar (e.g. an element of a float32 array): it is the
                # number float(np.float32(v)), and that number has to end up inside a bin
                arg = np.float32(v)
                v = float(arg)
                ctx.label("float32_scalar")
            elif case.get("scalar_type") == "int" and float(v).is_integer() and abs(v) < 2 ** 50:
                arg = int(v)
            r = ctx.call(f"fill({arg!r})", h.fill, arg) if wt is None else ctx.call(f"fill({arg!r},{wt})", h.fill, arg, wt)
            values.append(v)
            weights.append(1 if wt is None else wt)
            new = [v]
        else:
            vs = [resolve_value(s, w, edges_now) for s in op[1]]
            ws = op[2]
            batch = np.array(vs, dtype=float)
            if case.get("scalar_type") == "float32" and all(abs(x) < 1e30 for x in vs):
                batch = batch.astype(np.float32)
                vs = [float(x) for x in batch]
                ctx.label("float32_batch")
            if ws is None:
                ctx.call(f"fill_n({vs})", h.fill_n, batch)
            else:
                ctx.call(f"fill_n({vs},{ws})", h.fill_n, batch,
                         np.array(ws, dtype=np.int64 if all(isinstance(x, int) for x in ws) else np.float64))
            values += vs
            weights += [1] * len(vs) if ws is None else list(ws)
            new = vs
            if not vs:
                ctx.label("empty_batch")
                special = True
        for v in new:
            if first is not None and v < first:
                grew_left = True
            if last is not None and v >= last:
                grew_right = True
            q = v / w
            if w not in DYADIC_W and abs(q - round(q)) < 1e-9:
                special = True
                ctx.label("multiple_of_nondyadic_width")
            if edges_now and any(v in (math.nextafter(e, math.inf), math.nextafter(e, -math.inf)) for e in (edges_now[0], edges_now[-1])):
                special = True
                ctx.label("ulp_beside_outer_edge")
            if last is not None and v == last:
                ctx.label("on_last_edge")
                special = True
        invariant(f"step {k} {op[0]}")
    if values:
        # final: equals a fixed-bin histogram of the same data over the final bins
        from physt.binnings import StaticBinning

        hb = ctx.call("h1(all, final bins)", physt.h1, np.array(values), StaticBinning(np.array(h.bins)),
                      weights=np.array(weights, dtype=np.int64 if all(isinstance(x, int) for x in weights) else np.float64))
        require(np.array_equal(hb.frequencies, h.frequencies), "final_vs_fixed", f"{hb.frequencies} vs {h.frequencies}")
        ctx.label(f"bins_{min(2000, 10 ** len(str(h.bin_count)))}")
    if grew_left and grew_right:
        ctx.label("grew_both_sides")
    ctx.nt((grew_left and grew_right) or special)


def value_specs(max_k, allow_edge=True):
    opts = [
        st.tuples(st.just("mult"), st.integers(-max_k, max_k), st.sampled_from([0, 0, 0, 1, -1])).map(list),
        st.tuples(st.just("dec"), st.integers(-max_k, max_k), st.just(0)).map(list),
        st.tuples(st.just("raw"), st.floats(-max_k, max_k, allow_nan=False), st.just(0)).map(list),
    ]
    if allow_edge:
        opts.append(st.tuples(st.just("edge"), st.sampled_from([0, -1, 1, -2, 3]), st.sampled_from([0, 0, 1, -1])).map(list))
    return st.one_of(*opts)


@st.composite
def histories_1d(draw, tier="quick"):
    w = draw(st.sampled_from(WIDTHS))
    align = draw(st.sampled_from([True, True, False]))
    shift = draw(st.sampled_from([None, None, 0.5, 0.25, 0.1, 2.5, 1.25, 3.0, -1.5])) if align else None  # also |shift| >= one width
    near = value_specs(draw(st.sampled_from([3, 30, 300])))
    far = value_specs(draw(st.sampled_from([300, 1200])), allow_edge=False)
    val = st.one_of(near, near, near, far)
    wk = draw(st.sampled_from(["none", "none", "int", "dyadic"]))
    wgt = {"none": st.none(), "int": st.one_of(st.none(), st.integers(0, 5)), "dyadic": st.one_of(st.none(), gen.dyadics(64, 3))}[wk]

    @st.composite
    def op(draw):
        if draw(st.integers(0, 7)) == 0:
            return ["peek", draw(st.sampled_from(["bins", "numpy_bins", "bin_left_edges", "bin_widths", "bin_centers", "densities", "edges", "total_width"]))]
        if draw(st.booleans()):
            return ["fill", draw(val), draw(wgt)]
        vs = draw(st.lists(val, max_size=6))
        if wk == "none" or draw(st.booleans()):
            ws = None
        elif wk == "int":
            ws = draw(st.lists(st.integers(0, 5), min_size=len(vs), max_size=len(vs)))
        else:
            ws = draw(st.lists(gen.dyadics(64, 3), min_size=len(vs), max_size=len(vs)))
        return ["fill_n", vs, ws]

    prefill = draw(st.one_of(st.none(), st.lists(value_specs(30, allow_edge=False), min_size=1, max_size=6)))
    ops = draw(st.lists(op(), min_size=1, max_size=14 if tier == "thorough" else 8))
    peek_first = draw(st.sampled_from([None, None, "bins", "bin_widths", "bin_centers", "bin_left_edges", "densities"]))
    return {"w": w, "align": align, "shift": shift, "prefill": prefill, "ops": ops, "peek_first": peek_first,
            "scalar_type": draw(st.sampled_from([None, None, "float32", "int"]))}


# ---------------------------------------------------------------------------------
# N-D


def check_nd(case, ctx: Ctx):
    import physt

    ws_ = [float(x) for x in case["w"]]
    d = len(ws_)
    kwargs = {"bin_width": list(ws_), "adaptive": True}
    rows, weights = [], []
    pre = case.get("prefill")
    if pre:
        pr = [[resolve_value(s, ws_[j], []) for j, s in enumerate(r)] for r in pre]
        h = ctx.call("h(prefill, adaptive)", physt.h, np.array(pr, dtype=float), "fixed_width", **kwargs)
        rows += pr
        weights += [1] * len(pr)
        ctx.label("prefilled")
    elif case.get("empty_as") == "zero_rows":
        # an array that holds no rows yet (e.g. an empty batch or chunk) instead of None
        h = ctx.call("h(zero rows, adaptive)", physt.h, np.zeros((0, d)), "fixed_width", **kwargs)
        ctx.label("empty_start", "empty_start_zero_rows")
    else:
        h = ctx.call("h(None, adaptive)", physt.h, None, "fixed_width", dim=d, **kwargs)
        ctx.label("empty_start")
    special = False
    grew = [set() for _ in range(d)]

    def invariant(step):
        if not rows:
            return
        axes_pairs = [model.pairs_of(b) for b in h.bins]
        for j in range(d):
            edges = [p[0] for p in axes_pairs[j]] + [axes_pairs[j][-1][1]]
            axis_checks(ctx, edges, ws_[j], 0.0, f"{step} axis {j}")
        require(F(h.missed) == 0, "lost_value", f"{step}: missed={h.missed}; last rows {rows[-2:]}")
        tw = sum((F(x) for x in weights), Fraction(0))
        require(F(h.total) == tw, "total", f"{step}: {h.total} vs {float(tw)}")
        m = model.histnd(axes_pairs, [False] * d, rows, weights)
        require(m["missed"] == 0, "value_outside", f"{step}: model finds rows outside the reported bins")
        shape = tuple(len(p) for p in axes_pairs)
        require(h.frequencies.shape == shape, "shape", step)
        nz = 0
        for idx, want in m["cells"].items():
            require(F(h.frequencies[idx]) == want, "content_moved", lambda: f"{step}: cell {idx}: {h.frequencies[idx]!r} want {float(want)}")
            require(F(h.errors2[idx]) == m["cells2"][idx], "errors2", lambda: f"{step}: cell {idx}")
            nz += 1
        require(int(np.count_nonzero(h.frequencies)) <= nz, "spurious_content", step)
        for row in rows[-6:]:
            idx = h.find_bin(row)
            require(idx is not None and idx == model.locate_nd(axes_pairs, [False] * d, row), "find_bin", f"{step}: {row} -> {idx}")
        for j in range(d):
            col = [r[j] for r in rows]
            require(model.locate(axes_pairs[j], min(col), False) == 0, "superfluous_left_bin", f"{step} axis {j}")
            require(model.locate(axes_pairs[j], max(col), False) == len(axes_pairs[j]) - 1, "superfluous_right_bin", f"{step} axis {j}")

    invariant("after construction")
    if case.get("peek_first"):
        ctx.maybe(lambda: getattr(h, case["peek_first"]))
        ctx.label("peek_first")
        if not rows:
            ctx.label("peek_on_empty")
            special = True
    for k, op in enumerate(case["ops"]):
        edges_now = [[float(x) for x in b.numpy_bins] if b.bin_count else [] for b in h.binnings]
        if op[0] == "peek":
            ctx.maybe(lambda: getattr(h, op[1]))
            ctx.label("peek")
            if not rows:
                ctx.label("peek_on_empty")
                special = True
            invariant(f"step {k} peek {op[1]}")
            continue
        if op[0] == "fill":
            row = [resolve_value(s, ws_[j], edges_now[j]) for j, s in enumerate(op[1])]
            wt = op[2]
            if case.get("scalar_type") == "float32" and all(abs(x) < 1e30 for x in row):
                row32 = np.array(row, dtype=np.float32)  # a point taken out of a single-precision array
                row = [float(x) for x in row32]
                ctx.label("float32_point")
                ctx.call(f"fill({row32})", h.fill, row32) if wt is None else ctx.call(f"fill({row32},{wt})", h.fill, row32, wt)
            else:
                ctx.call(f"fill({row})", h.fill, row) if wt is None else ctx.call(f"fill({row},{wt})", h.fill, row, wt)
            rows.append(row)
            weights.append(1 if wt is None else wt)
            new = [row]
        else:
            rs = [[resolve_value(s, ws_[j], edges_now[j]) for j, s in enumerate(r)] for r in op[1]]
            wl = op[2]
            arr = np.array(rs, dtype=float).reshape(len(rs), d)
            if case.get("scalar_type") == "float32" and all(abs(x) < 1e30 for r_ in rs for x in r_):
                arr = arr.astype(np.float32)
                rs = [[float(x) for x in r_] for r_ in arr]
                ctx.label("float32_batch")
            if wl is None:
                ctx.call(f"fill_n({rs})", h.fill_n, arr)
            else:
                ctx.call(f"fill_n({rs},{wl})", h.fill_n, arr, np.array(wl, dtype=np.int64 if all(isinstance(x, int) for x in wl) else np.float64))
            rows += rs
            weights += [1] * len(rs) if wl is None else list(wl)
            new = rs
            if not rs:
                ctx.label("empty_batch")
                special = True
        for row in new:
            for j, v in enumerate(row):
                if edges_now[j]:
                    if v < edges_now[j][0]:
                        grew[j].add("L")
                    if v >= edges_now[j][-1]:
                        grew[j].add("R")
                    if v == edges_now[j][-1]:
                        ctx.label("on_last_edge")
                        special = True
                q = v / ws_[j]
                if ws_[j] not in DYADIC_W and abs(q - round(q)) < 1e-9:
                    special = True
        invariant(f"step {k} {op[0]}")
    both = any(g == {"L", "R"} for g in grew)
    if both:
        ctx.label("grew_both_sides")
    ctx.label(f"d{d}")
    ctx.nt(both or special)


@st.composite
def histories_nd(draw, tier="quick"):
    d = draw(st.sampled_from([2, 2, 3]))
    max_k = {2: 20, 3: 6}[d]
    ws_ = [draw(st.sampled_from(WIDTHS)) for _ in range(d)]
    spec = value_specs(max_k)
    row = st.lists(spec, min_size=d, max_size=d)
    wk = draw(st.sampled_from(["none", "int", "dyadic"]))
    wgt = {"none": st.none(), "int": st.one_of(st.none(), st.integers(0, 5)), "dyadic": st.one_of(st.none(), gen.dyadics(64, 3))}[wk]

    @st.composite
    def op(draw):
        if draw(st.integers(0, 7)) == 0:
            return ["peek", draw(st.sampled_from(["bins", "edges", "bin_sizes", "densities", "total_size", "shape"]))]
        if draw(st.booleans()):
            return ["fill", draw(row), draw(wgt)]
        rs = draw(st.lists(row, max_size=5))
        if wk == "none" or draw(st.booleans()):
            wl = None
        elif wk == "int":
            wl = draw(st.lists(st.integers(0, 5), min_size=len(rs), max_size=len(rs)))
        else:
            wl = draw(st.lists(gen.dyadics(64, 3), min_size=len(rs), max_size=len(rs)))
        return ["fill_n", rs, wl]

    pre_row = st.lists(value_specs(max_k, allow_edge=False), min_size=d, max_size=d)
    prefill = draw(st.one_of(st.none(), st.lists(pre_row, min_size=1, max_size=4)))
    ops = draw(st.lists(op(), min_size=1, max_size=10 if tier == "thorough" else 6))
    return {"w": ws_, "prefill": prefill, "ops": ops, "peek_first": draw(st.sampled_from([None, None, "bins", "bin_sizes", "densities"])),
            "empty_as": draw(st.sampled_from(["none", "zero_rows"])), "scalar_type": draw(st.sampled_from([None, None, "float32"]))}


# ---------------------------------------------------------------------------------
# non-adaptive binnings derived from data cover the data


def check_cover(case, ctx: Ctx):
    import physt

    base, scale = case["base"], case["scale"]
    data = [base + x * scale for x in case["xs"]]
    n = len(data)
    method = case["method"]
    kwargs = dict(case["kwargs"])
    if "bin_width" in kwargs:
        kwargs["bin_width"] = kwargs["bin_width"] * scale
    span = max(data) - min(data)
    ctx.label("method_" + method)
    if case["d"] == 1:
        ok, h = ctx.maybe(physt.h1, np.array(data), method, **kwargs)
        if not ok:
            # only degenerate inputs may be refused
            require(span == 0 or n < 2 or method == "integer" and span > 1e6, "refused", f"{method} {kwargs}: {h!r}")
            ctx.label("refused")
            return
        require(h.total == n and float(h.underflow) == 0 and float(h.overflow) == 0, "not_covered",
                f"{method} {kwargs}: total {h.total}/{n} under {h.underflow} over {h.overflow}; data range [{min(data)!r},{max(data)!r}] edges [{h.numpy_bins[0]!r},{h.numpy_bins[-1]!r}]")
        edges = [float(x) for x in h.numpy_bins]
    else:
        d = case["d"]
        cols = [data] + [[base + ((x * (j + 2)) % 10.0) * scale for x in case["xs"]] for j in range(1, d)]
        arr = np.array(cols, dtype=float).T
        ok, h = ctx.maybe(physt.h, arr, method, **kwargs)
        if not ok:
            require(any(max(c) == min(c) for c in cols) or n < 2, "refused", f"{method} {kwargs}: {h!r}")
            ctx.label("refused")
            return
        require(h.total == n and h.missed == 0, "not_covered", f"{method} {kwargs} d={d}: total {h.total}/{n} missed {h.missed}")
        edges = [float(x) for x in h.binnings[0].numpy_bins]
    on_edge = any(v in edges for v in data)
    if on_edge:
        ctx.label("data_on_edge")
    ctx.nt(on_edge or abs(base) >= 1e3 * max(span, 1e-300))


@st.composite
def cover_cases(draw, tier="quick"):
    base, scale = draw(st.sampled_from(gen._BASE_SCALE[:-1]))
    n = draw(st.integers(2, 30))
    if draw(st.booleans()):
        xs = [float(x) for x in draw(st.lists(st.integers(0, 10), min_size=n, max_size=n))]
    else:
        xs = draw(st.lists(st.floats(0, 10, allow_nan=False), min_size=n, max_size=n))
    method = draw(st.sampled_from(["fixed_width", "fixed_width", "pretty", "integer"]))
    kwargs = {}
    d = draw(st.sampled_from([1, 1, 2, 3]))
    if method == "fixed_width":
        kwargs["bin_width"] = draw(st.sampled_from([0.1, 0.25, 0.3, 0.5, 1.0, 2.5, 3.3])) * (1 if d < 3 else 4)
        if draw(st.booleans()):
            kwargs["align"] = False
    elif method == "pretty":
        if draw(st.booleans()):
            kwargs["bin_count"] = draw(st.integers(1, 12 if d == 1 else 5))
    else:
        if scale * 10 > 200:
            scale_bw = int(scale * 10 // 40) + 1
            kwargs["bin_width"] = scale_bw / scale  # multiplied by scale again in the check
    return {"base": base, "scale": scale, "xs": xs, "method": method, "kwargs": kwargs, "d": d}


FINDINGS = []

SUBS = [
    Sub("adaptive_1d", lambda tier: histories_1d(tier), check_1d, quick=700, thorough=5000),
    Sub("adaptive_nd", lambda tier: histories_nd(tier), check_nd, quick=350, thorough=2500),
    Sub("derived_cover", lambda tier: cover_cases(tier), check_cover, quick=500, thorough=4000),
]

RULE += ' Also: bin_shift of one width or more (1.25, 2.5, 3, -1.5 widths); N-D histories started from a zero-row array instead of None.'
