"""C01 — 1-D construction: each value counted once, in the bin that contains it."""
from __future__ import annotations

import math
from fractions import Fraction

import numpy as np
from hypothesis import strategies as st

from pbt import gen, model
from pbt.core import Ctx, Finding, Sub, Violation, require
from pbt.model import F

LEVEL = "exploration"
RULE = (
    "Cases are drawn by Hypothesis: (bins given as edge array/tuple/list, pair array, Static/Numpy/FixedWidth/"
    "Exponential binning object, or a method name with arguments) x data placed relative to the edges (exact edges, "
    "+-1 ulp neighbours, midpoints, gaps, far outside, NaN) x weights (none/int/dyadic/general float) x dtype x "
    "keep_missed x dropna x data shape. A case is non-trivial if some value lies exactly on an interior or last "
    "edge, within 1 ulp of an edge, in a gap between non-consecutive bins, a NaN carries a non-unit weight, or the "
    "data is empty. distinct = distinct SHA-1 of the canonical JSON of the case."
)
ASSUMPTIONS = [
    "the bins the histogram reports are taken as given for method-name specifications (their rule is C07)",
    "gaps between non-consecutive bins are either exactly zero or at least 1000x physt's documented allclose tolerance",
    "general float weights are compared with the forward summation bound (n+8)*eps*sum|w|; int/dyadic weights exactly",
]

INT_DTYPES = ("int16", "int32", "int64")


def _tol(kind: str, dtype: np.dtype, n: int, mass: float) -> float:
    eps = model.EPS.get(dtype.name, 2.0 ** -52)
    if dtype.kind in "iu":
        return 0.0
    if kind in ("none", "int", "dyadic") and dtype.name in ("float64", "float128"):
        return 0.0
    tiny = {"float16": 6.2e-5, "float32": 1.2e-38}.get(dtype.name, 2.3e-308)
    return (n + 8) * eps * mass + (n + 1) * tiny  # + underflow of tiny values / products


def build_bins(spec, ps):
    """Turn the plain-data bin specification into the object handed to physt."""
    from physt.binnings import ExponentialBinning, FixedWidthBinning, NumpyBinning, StaticBinning

    form = spec["form"]
    edges = [p[0] for p in ps] + [ps[-1][1]] if ps else None
    if form == "edges_array":
        return np.array(edges)
    if form == "edges_tuple":
        return tuple(edges)
    if form == "edges_list":
        return list(edges)
    if form == "pairs":
        return np.array(ps)
    if form == "pairs_list":
        return [list(p) for p in ps]
    if form == "static":
        return StaticBinning(np.array(ps), includes_right_edge=spec.get("incl", True))
    if form == "numpy":
        return NumpyBinning(np.array(edges), includes_right_edge=spec.get("incl", True))
    if form == "static_selected":
        # a selection of bins taken from a binning that has already been used and inspected
        import physt

        parent = StaticBinning(np.array(spec["parent"]), includes_right_edge=spec.get("incl", True))
        mid = (spec["parent"][0][0] + spec["parent"][0][1]) / 2
        physt.h1(np.array([mid]), parent)
        parent.is_consecutive()
        parent.numpy_bins_with_mask
        sel = spec["select"]
        return parent[sel[1]:sel[2]] if sel[0] == "slice" else parent[list(sel[1])]
    if form == "fixed":
        return FixedWidthBinning(bin_width=spec["w"], bin_count=spec["n"], min=spec["min"])
    if form == "exp":
        return ExponentialBinning(log_min=spec["log_min"], log_width=spec["log_width"], bin_count=spec["n"])
    raise AssertionError(form)


def make_data(case):
    data = list(case["data"])
    arr = np.array(data, dtype=float)
    if case.get("as_int") and len(data) and all(not math.isnan(x) and float(x).is_integer() and abs(x) < 2**50 for x in data):
        arr = arr.astype(np.int64)
    w = case.get("weights")
    warr = None
    if w is not None:
        # (an empty python list has no element type; it is always passed as a typed array)
        warr = np.array(w) if case.get("wform", "array") == "array" or len(w) == 0 else list(w)
        if isinstance(warr, np.ndarray) and case["wkind"] == "int":
            warr = warr.astype(case.get("wdtype") or np.int64)
        if isinstance(warr, np.ndarray) and case["wkind"] in ("dyadic", "float"):
            warr = warr.astype(case.get("fwdtype") or np.float64)
    k = case.get("rows")
    if k and len(data) and len(data) % k == 0 and k > 1:
        arr = arr.reshape(k, -1)
        if isinstance(warr, np.ndarray):
            warr = warr.reshape(k, -1)
        elif warr is not None:
            warr = np.array(warr).reshape(k, -1).tolist()
        # the same logical arrays in another memory layout (element i, j keeps its weight i, j)
        layout = case.get("layout")
        if layout == "fortran":
            arr = np.asfortranarray(arr)
        elif layout == "transposed_view":
            arr = np.ascontiguousarray(arr.T).T
        elif layout == "both_fortran":
            arr = np.asfortranarray(arr)
            if isinstance(warr, np.ndarray):
                warr = np.asfortranarray(warr)
        elif layout == "weights_fortran" and isinstance(warr, np.ndarray):
            warr = np.asfortranarray(warr)
    return arr, warr


def expected_dtype(case) -> np.dtype:
    if case.get("dtype"):
        return np.dtype(case["dtype"])
    if case.get("weights") is None:
        return np.dtype("int64")
    return np.dtype("int64") if case["wkind"] == "int" else np.dtype("float64")


def assert_histogram(ctx: Ctx, h, case, ps_expected=None):
    """Compare a Histogram1D with the exact model over the bins it reports."""
    data, weights = case["data"], case.get("weights")
    ps = model.pairs_of(h.bins)
    require(model.is_rising(ps), "bins_not_rising", f"{ps}")
    if ps_expected is not None:
        require(ps == [tuple(map(float, p)) for p in ps_expected], "bins_differ_from_spec",
                f"spec {ps_expected} reported {ps}")
    if not case.get("adaptive_requested"):
        # adaptivity is opt-in: without adaptive=True the bins stay what they are
        require(not h.is_adaptive(), "adaptive_by_default", "the histogram is adaptive although adaptive=True was not passed")
    m = model.hist1d(ps, data, weights)
    n = sum(1 for v in data if not math.isnan(v))
    dt = expected_dtype(case)
    if case.get("wdtype") and not case.get("dtype"):
        # integer weights of a narrow type: the histogram may keep that type or widen it, but stays integral
        require(h.dtype.kind == "i", "dtype", f"reported {h.dtype} for {case['wdtype']} weights")
        dt = h.dtype
    if case.get("fwdtype") and not case.get("dtype"):
        # float weights of a narrow type: some float type (the values below decide whether it was wide enough)
        require(h.dtype.kind == "f", "dtype", f"reported {h.dtype} for {case['fwdtype']} weights")
        dt = h.dtype
    require(h.dtype == dt, "dtype", f"reported {h.dtype}, expected {dt}")
    require(h.frequencies.dtype == dt and h.errors2.dtype == dt, "array_dtype",
            f"{h.frequencies.dtype}/{h.errors2.dtype} vs {dt}")
    require(h.frequencies.shape == (len(ps),) == h.errors2.shape, "shape", f"{h.frequencies.shape}")
    wkind = case.get("wkind", "none")
    mass = m["abs_in"]
    mass2 = sum(float(F(w)) ** 2 for w in (weights or [])) if weights is not None else float(n)
    tol = _tol(wkind, dt, n, mass)
    tol2 = _tol(wkind, dt, n + 8, mass2)
    if dt.name == "float32":
        tol2 = max(tol2, (n + 16) * 2.0 ** -23 * mass2)
    # per-bin tolerances: a bin holds the sum of *its* weights, so its rounding error scales with the weight in that bin
    # (not with the weight elsewhere in the histogram)
    bin_mass = [0.0] * len(ps)
    bin_mass2 = [0.0] * len(ps)
    bin_n = [0] * len(ps)
    out_mass = {"under": 0.0, "over": 0.0}
    for k_, v_ in enumerate(data):
        if math.isnan(v_):
            continue
        w_ = 1.0 if weights is None else float(F(weights[k_]))
        i_ = model.locate(ps, v_)
        if isinstance(i_, int) and 0 <= i_ < len(ps):
            bin_mass[i_] += abs(w_)
            bin_mass2[i_] += w_ * w_
            bin_n[i_] += 1
        elif i_ == -1:
            out_mass["under"] += abs(w_)
        elif i_ == len(ps):
            out_mass["over"] += abs(w_)
    tols = [min(tol, _tol(wkind, dt, bin_n[i], bin_mass[i])) for i in range(len(ps))]
    tols2 = [min(tol2, max(_tol(wkind, dt, bin_n[i] + 8, bin_mass2[i]), (bin_n[i] + 16) * 2.0 ** -23 * bin_mass2[i] if dt.name == "float32" else 0.0)) for i in range(len(ps))]
    for i in range(len(ps)):
        require(model.close(h.frequencies[i], m["freq"][i], tols[i]), "frequency_bin",
                lambda: f"bin {i} {ps[i]}: got {h.frequencies[i]!r} want {float(m['freq'][i])!r} (tolerance for the weight in this bin {tols[i]})")
        require(model.close(h.errors2[i], m["err2"][i], tols2[i]), "errors2_bin",
                lambda: f"bin {i} {ps[i]}: got {h.errors2[i]!r} want {float(m['err2'][i])!r} (tolerance for the weight in this bin {tols2[i]})")
    for i in range(len(ps)):
        require(model.close(h.frequencies[i], m["freq"][i], tol), "frequency",
                lambda: f"bin {i} {ps[i]}: got {h.frequencies[i]!r} want {float(m['freq'][i])!r} (tol {tol})")
        require(model.close(h.errors2[i], m["err2"][i], tol2), "errors2",
                lambda: f"bin {i} {ps[i]}: got {h.errors2[i]!r} want {float(m['err2'][i])!r} (tol {tol2})")
    in_bins = sum(m["freq"], Fraction(0))
    require(model.close(h.total, in_bins, tol * max(1, len(ps))), "total", f"{h.total} vs {float(in_bins)}")
    gapped = bool(model.gaps(ps))
    if not case.get("keep_missed", True):
        require(math.isnan(h.underflow) and math.isnan(h.overflow), "keep_missed_false_reports_numbers",
                f"{h.underflow},{h.overflow}")
    elif gapped:
        require(math.isnan(float(h.underflow)) and math.isnan(float(h.overflow)), "gapped_underflow_not_unknown",
                f"underflow={h.underflow} overflow={h.overflow} bins={ps}")
    else:
        require(model.close(h.underflow, m["under"], min(tol, _tol(wkind, dt, n, out_mass["under"]))), "underflow", f"{h.underflow} vs {float(m['under'])}")
        require(model.close(h.overflow, m["over"], min(tol, _tol(wkind, dt, n, out_mass["over"]))), "overflow", f"{h.overflow} vs {float(m['over'])}")
        acc = F(h.total) + F(h.underflow) + F(h.overflow)
        require(abs(acc - m["total_in"]) <= Fraction(3 * tol), "accounting",
                f"total+under+over={float(acc)} input weight={float(m['total_in'])}")
    # labels / non-triviality
    edges_all = {e for p in ps for e in p}
    interior_or_last = {p[0] for p in ps[1:]} | {ps[-1][1]}
    near = {gen.nextafter(e, True) for e in edges_all} | {gen.nextafter(e, False) for e in edges_all}
    for k, v in enumerate(data):
        if math.isnan(v):
            ctx.label("nan")
            if weights is not None and F(weights[k]) != 1:
                ctx.label("nan_weighted")
                ctx.nt()
            continue
        if v in interior_or_last:
            ctx.label("on_edge")
            ctx.nt()
        if v in near:
            ctx.label("ulp_beside_edge")
            ctx.nt()
        loc = model.locate(ps, v)
        if loc is None:
            ctx.label("in_gap")
            ctx.nt()
        elif loc == -1:
            ctx.label("underflow")
        elif loc == len(ps):
            ctx.label("overflow")
    if n == 0:
        ctx.label("empty")
        ctx.nt()
    ctx.label("gapped" if gapped else "consecutive", f"w_{wkind}", f"dtype_{case.get('dtype')}",
              f"bins_{min(len(ps), 9)}")


# ---------------------------------------------------------------------------------
# sub-check 1: explicit bins


def check_explicit(case, ctx: Ctx):
    import physt

    ps = case["pairs"]
    spec = case["spec"]
    ctx.label("form_" + spec["form"])
    bins = build_bins(spec, ps)
    arr, warr = make_data(case)
    kwargs = {"keep_missed": case["keep_missed"], "dropna": case["dropna"]}
    if case.get("use_defaults"):
        # the documented defaults (keep_missed=True, dropna=True) are what one gets without the arguments
        kwargs = {k: v for k, v in kwargs.items() if v is not True}
        ctx.label("defaults_omitted")
    if case.get("dtype"):
        kwargs["dtype"] = case["dtype"]
    if warr is not None:
        kwargs["weights"] = warr
    has_nan = any(math.isnan(v) for v in case["data"])
    if has_nan and not case["dropna"]:
        ctx.label("refusal_nan_without_dropna")
        ctx.nt()
        ctx.refused("h1 with NaN and dropna=False", physt.h1, arr, bins, **kwargs)
        return
    if case.get("dtype") in INT_DTYPES and case.get("wkind") in ("dyadic", "float"):
        ctx.label("refusal_int_dtype_float_weights")
        ctx.nt()
        ctx.refused("h1 integer dtype with float weights", physt.h1, arr, bins, **kwargs)
        return
    h = ctx.call("h1", physt.h1, arr, bins, **kwargs)
    explicit = spec["form"] in ("edges_array", "edges_tuple", "edges_list", "pairs", "pairs_list", "static", "numpy", "static_selected")
    assert_histogram(ctx, h, case, ps if explicit else None)
    if case["keep_missed"]:
        # bins identical with keep_missed off (metamorphic)
        pass


@st.composite
def explicit_cases(draw, tier="quick"):
    form = draw(st.sampled_from(["edges_array", "edges_tuple", "edges_list", "pairs", "pairs", "pairs_list",
                                 "static", "static", "numpy", "fixed", "fixed", "fixed", "exp", "static_selected", "static_selected"]))
    spec = {"form": form}
    if form in ("pairs", "pairs_list", "static"):
        ps = draw(gen.pairs(1, 12))
    elif form == "static_selected":
        parent = draw(gen.pairs(2, 12, gapped=draw(st.sampled_from([False, False, True]))))
        n_ = len(parent)
        if draw(st.booleans()):
            a = draw(st.integers(0, n_ - 1))
            b = draw(st.integers(a + 1, n_))
            sel = ["slice", a, b]
            ps = [list(p) for p in parent[a:b]]
        else:
            idx = sorted(set(draw(st.lists(st.integers(0, n_ - 1), min_size=1, max_size=n_))))
            sel = ["index", idx]
            ps = [list(parent[i]) for i in idx]
        if model.gaps(ps) and model.physt_consecutive(ps):
            # a gap below physt's documented allclose tolerance is outside the domain (D30): take everything
            sel = ["slice", 0, n_]
            ps = [list(p) for p in parent]
        spec.update(parent=parent, select=sel)
    elif form == "fixed":
        w = draw(st.sampled_from([0.1, 0.25, 0.3, 1.0, 2.5, 10.0, 1e-3, 7.0]))
        n = draw(st.integers(1, 10))
        mn = draw(st.integers(-30, 30)) * w * draw(st.sampled_from([1.0, 1.0, 0.5]))
        spec.update(w=w, n=n, min=mn)
        # the edges as physt computes them ((times_min + i) * width + shift), so that generated values sit
        # exactly on / one ulp beside the real edges
        tm = math.floor(mn / w)
        sh = mn - tm * w
        ps = [[(tm + i) * w + sh, (tm + i + 1) * w + sh] for i in range(n)]
    elif form == "exp":
        n = draw(st.integers(1, 8))
        log_min = draw(st.sampled_from([-3.0, 0.0, 0.5, 2.0]))
        log_width = draw(st.sampled_from([0.1, 0.25, 0.5, 1.0]))
        spec.update(n=n, log_min=log_min, log_width=log_width)
        ps = [[10.0 ** (log_min + i * log_width), 10.0 ** (log_min + (i + 1) * log_width)] for i in range(n)]
    else:
        ps = draw(gen.pairs(1, 12, gapped=False))
    if form in ("static", "numpy", "static_selected"):
        spec["incl"] = draw(st.booleans())
    dropna = draw(st.booleans())
    allow_nan = draw(st.sampled_from([False, False, True]))
    data = draw(gen.values_for(ps, 0, 60 if tier == "thorough" else 40, allow_nan=allow_nan))
    wkind, weights = draw(gen.weights_for(len(data)))
    if wkind == "float" and draw(st.integers(0, 2)) == 0:
        # weights of very different magnitude: a heavy entry must not wipe out the light ones in *other* bins
        weights = [draw(st.sampled_from([1e8, 2.0 ** 60, 0.5, 0.25, 1.25, 1e-3, 3.0])) for _ in weights]
    wdtype = None
    if wkind == "int" and draw(st.integers(0, 2)) == 0:
        # integer weights stored in a narrow type whose sums / squares leave that type
        wdtype = draw(st.sampled_from(["int8", "uint8", "int16", "int32", "uint16"]))
        heavy = {"int8": [100, 120, 7, 0], "uint8": [200, 255, 16, 0], "int16": [30000, 200, 3, 0], "int32": [100000, 2 ** 30, 5, 0], "uint16": [60000, 300, 1, 0]}[wdtype]
        weights = [draw(st.sampled_from(heavy)) for _ in weights]
    dtype = draw(st.sampled_from([None, None, None, "int32", "int64", "float32", "float64"]))
    if wdtype:
        dtype = None
    fwdtype = None
    if wkind in ("dyadic", "float") and draw(st.integers(0, 3)) == 0:
        # float weights stored in a narrow type whose squares / sums leave that type (all exactly representable in it)
        fwdtype = draw(st.sampled_from(["float16", "float32"]))
        heavy = {"float16": [300.0, 1024.0, 0.5, 60000.0, 0.0], "float32": [2.0 ** 100, 2.0 ** 70, 3.0, 0.5, 2.0 ** 127]}[fwdtype]
        weights = [draw(st.sampled_from(heavy)) for _ in weights]
        wkind, dtype = "float", None
    return {
        "spec": spec, "pairs": ps, "data": data, "wkind": wkind, "weights": weights,
        "wform": draw(st.sampled_from(["array", "array", "list"])),
        "dtype": dtype, "keep_missed": draw(st.sampled_from([True, True, False])), "dropna": dropna,
        "rows": draw(st.sampled_from([None, None, 2, 3])), "as_int": draw(st.booleans()),
        "layout": draw(st.sampled_from([None, "fortran", "transposed_view", "both_fortran", "weights_fortran"])),
        "use_defaults": draw(st.booleans()), "wdtype": wdtype, "fwdtype": fwdtype,
    }


# ---------------------------------------------------------------------------------
# sub-check 2: bins from a method name / count / range


def check_method(case, ctx: Ctx):
    import physt

    arr, warr = make_data(case)
    kwargs = dict(case["kwargs"])
    if "range" in kwargs:
        kwargs["range"] = tuple(kwargs["range"])
    if warr is not None:
        kwargs["weights"] = warr
    if case.get("dtype"):
        kwargs["dtype"] = case["dtype"]
    if not (case.get("use_defaults") and case["keep_missed"] is True):
        kwargs["keep_missed"] = case["keep_missed"]
    ctx.label("method_" + str(case["bins"]))
    if case.get("dtype") in INT_DTYPES and case.get("wkind") in ("dyadic", "float"):
        ctx.refused("h1 integer dtype with float weights", physt.h1, arr, case["bins"], **kwargs)
        ctx.label("refusal_int_dtype_float_weights")
        return
    ok, h = ctx.maybe(physt.h1, arr, case["bins"], **kwargs)
    if not ok:
        ctx.label("binning_refused:" + type(h).__name__)
        return
    assert_histogram(ctx, h, case, None)


@st.composite
def method_cases(draw, tier="quick"):
    base, scale = draw(st.sampled_from(gen._BASE_SCALE[:-1]))
    n = draw(st.integers(2, 50))
    kind = draw(st.sampled_from(["float", "float", "int", "decimal"]))
    if kind == "float":
        xs = draw(st.lists(st.floats(0, 10, allow_nan=False), min_size=n, max_size=n))
        data = [base + x * scale for x in xs]
    elif kind == "int":
        data = [float(x) for x in draw(st.lists(st.integers(-20, 20), min_size=n, max_size=n))]
    else:
        data = [round(x * 0.1, 6) for x in draw(st.lists(st.integers(-50, 50), min_size=n, max_size=n))]
    if draw(st.booleans()):
        data = data + data[: len(data) // 3]  # duplicates
    lo, hi = min(data), max(data)
    which = draw(st.sampled_from(["int", "none", "numpy", "fixed_width", "pretty", "integer", "quantile",
                                  "exponential", "sturges", "sqrt", "rice", "doane", "int_range"]))
    kwargs = {}
    bins = which
    span = (hi - lo) or 1.0
    if which == "int":
        bins = draw(st.integers(1, 12))
    elif which == "none":
        bins = None
    elif which == "int_range":
        bins = draw(st.integers(1, 12))
        a = lo + span * draw(st.sampled_from([-0.5, 0.0, 0.25]))
        b = hi - span * draw(st.sampled_from([-0.5, 0.0, 0.25]))
        kwargs["range"] = [a, b] if a < b else [lo, hi + span]
    elif which == "numpy":
        kwargs["bin_count"] = draw(st.integers(1, 12))
    elif which == "fixed_width":
        kwargs["bin_width"] = span / draw(st.integers(1, 12)) if draw(st.booleans()) else draw(st.sampled_from([0.1, 0.5, 1.0, 2.5])) * max(span / 5, 1e-300)
        if draw(st.booleans()):
            kwargs["align"] = False
    elif which == "pretty":
        if draw(st.booleans()):
            kwargs["bin_count"] = draw(st.integers(1, 15))
    elif which == "integer":
        if span > 300:
            kwargs["bin_width"] = int(span // 20) + 1
    elif which == "quantile":
        if draw(st.booleans()):
            kwargs["bin_count"] = draw(st.integers(1, 8))
        else:
            kwargs["q"] = sorted(set(draw(st.lists(st.sampled_from([0.0, 0.1, 0.25, 0.5, 0.75, 0.9, 1.0]), min_size=2, max_size=6))))
            if len(kwargs["q"]) < 2:
                kwargs["q"] = [0.0, 1.0]
    elif which == "exponential":
        data = [abs(x) + 10.0 ** draw(st.integers(-3, 1)) for x in data]
        if draw(st.booleans()):
            kwargs["bin_count"] = draw(st.integers(1, 10))
    wkind, weights = draw(gen.weights_for(len(data)))
    return {
        "bins": bins, "kwargs": kwargs, "data": data, "wkind": wkind, "weights": weights, "wform": "array",
        "dtype": draw(st.sampled_from([None, None, "int64", "float64", "float32"])),
        "keep_missed": draw(st.sampled_from([True, True, False])), "dropna": True,
        "rows": draw(st.sampled_from([None, 2])), "as_int": draw(st.booleans()), "use_defaults": draw(st.booleans()),
    }


# ---------------------------------------------------------------------------------
# sub-check 3: collections of 1-D histograms over a shared binning (physt.collection / multi_h1 / create)


def check_collection(case, ctx: Ctx):
    import physt
    from physt.histogram_collection import HistogramCollection

    sets = {k: [float(x) for x in v] for k, v in case["sets"].items()}
    ps = case["pairs"]
    edges = np.array([p[0] for p in ps] + [ps[-1][1]])
    via = case["via"]
    ctx.label("via_" + via, f"members_{len(sets)}")
    if via == "collection":
        col = ctx.call("physt.collection", physt.collection, {k: np.array(v) for k, v in sets.items()}, edges)
    elif via == "multi_h1":
        col = ctx.call("multi_h1", HistogramCollection.multi_h1, {k: np.array(v) for k, v in sets.items()}, edges)
    else:
        from physt.binnings import NumpyBinning

        col = ctx.call("HistogramCollection(binning)", HistogramCollection, binning=NumpyBinning(edges))
        for k, v in sets.items():
            ctx.call("create", col.create, k, np.array(v))
    require(len(col) == len(sets), "member_count", f"{len(col)} vs {len(sets)}")
    for (name, data), h in zip(sets.items(), col):
        require(h.name == name, "member_name", f"{h.name!r} vs {name!r}")
        require(col[name] is h, "lookup_by_name", name)
        sub = {"data": data, "weights": None, "wkind": "none", "dtype": None, "keep_missed": True}
        assert_histogram(Ctx(), h, sub, ps)
        require(h.binning == col.binning, "member_binning_differs", name)
    total = ctx.call("collection.sum", col.sum)
    alld = [x for v in sets.values() for x in v]
    assert_histogram(ctx, total, {"data": alld, "weights": None, "wkind": "none", "dtype": None, "keep_missed": True}, ps)
    ctx.nt(len(sets) >= 2)


@st.composite
def collection_cases(draw, tier="quick"):
    ps = draw(gen.pairs(1, 8, gapped=False))
    k = draw(st.integers(1, 4))
    sets = {f"s{i}": draw(gen.values_for(ps, 0 if i else 1, 15)) for i in range(k)}
    return {"pairs": ps, "sets": sets, "via": draw(st.sampled_from(["collection", "multi_h1", "create"]))}


# ---------------------------------------------------------------------------------
# known findings (signatures)


def _is_d01(sub, case, v: Violation) -> bool:
    """D01: integer content dtype x non-consecutive bins: the NaN marker for unknown
    under/overflow cannot be stored in an integer array."""
    if sub != "explicit" or v.kind != "raised:ValueError" or "NaN to integer" not in v.detail:
        return False
    ps = case["pairs"]
    return gen.is_gapped(ps) and expected_dtype(case).kind == "i"


FINDINGS = [
]

SUBS = [
    Sub("explicit", lambda tier: explicit_cases(tier), check_explicit, quick=1600, thorough=12000),
    Sub("method", lambda tier: method_cases(tier), check_method, quick=800, thorough=5000),
    Sub("collection", lambda tier: collection_cases(tier), check_collection, quick=300, thorough=2000),
]

RULE += ' Also: bins given as a selection (slice / index subset) of a StaticBinning that was already used and inspected; multi-dimensional data and weights in C, Fortran and transposed-view memory layouts; fixed-width / integer / pretty binnings with values on, just below and just above their real edges.'
