"""C07 — every binning schema is well-formed, covers its data and obeys its rule."""
from __future__ import annotations

import math
from fractions import Fraction

import numpy as np
from hypothesis import strategies as st

from pbt import gen, hgen, model
from pbt.core import Ctx, Finding, Sub, Violation, require

LEVEL = "exploration"
RULE = (
    "Sub-check 'factory': data (n = 2..200, 14 orders of magnitude, offsets, integers, decimals, duplicates) x binning "
    "specification (int, None, 'numpy' + bin_count/range, sturges/sqrt/rice/doane, fixed_width (+align/shift), pretty "
    "(+bin_count, min/max_bin_width), integer, quantile (bin_count / q / qrange), exponential, explicit edges/pairs): "
    "well-formedness, coverage, rule oracle. Sub-check 'representation': binning objects of every class (consecutive "
    "and gapped): bins <-> numpy_bins <-> masked edges, counts, first/last edge, is_consecutive, is_regular, copy, ==, "
    "slicing, as_static. Sub-check 'refusals': invalid specifications. Non-trivial: data spans >= 3 decades or has "
    "|offset|/range >= 1e3, or the binning is gapped, or the specification is invalid. distinct = SHA-1 of the case."
)
ASSUMPTIONS = [
    "numpy.histogram_bin_edges is the rule for numpy-style arguments (the property names it)",
    "rule comparisons that involve a ceil/floor are skipped when the real-valued argument is within 1e-9 of an integer",
    "NaN/inf edges, non-positive data for 'exponential', bin_count <= 0 are out of domain",
]


def well_formed(bins, what=""):
    ps = model.pairs_of(bins)
    require(len(ps) >= 1, "no_bins", what)
    for l, r in ps:
        require(math.isfinite(l) and math.isfinite(r), "non_finite_edge", f"{what}: {l},{r}")
        require(l < r, "left_not_below_right", f"{what}: {l!r} {r!r}")
    for (l0, r0), (l1, r1) in zip(ps[:-1], ps[1:]):
        require(r0 <= l1, "overlap", f"{what}: {r0!r} > {l1!r}")
    return ps


def near_int(x, tol=1e-9):
    return abs(x - round(x)) <= tol * max(1.0, abs(x))


def my_quantile(sorted_data, q):
    """Linear-interpolation quantile (numpy's default method)."""
    n = len(sorted_data)
    pos = q * (n - 1)
    lo = int(math.floor(pos))
    hi = min(lo + 1, n - 1)
    t = pos - lo
    return sorted_data[lo] + (sorted_data[hi] - sorted_data[lo]) * t


def my_skew(data):
    n = len(data)
    mean = math.fsum(data) / n
    m2 = math.fsum((x - mean) ** 2 for x in data) / n
    m3 = math.fsum((x - mean) ** 3 for x in data) / n
    return m3 / m2 ** 1.5 if m2 > 0 else float("nan")


PRETTY_MANTISSAS = (1.0, 2.0, 2.5, 5.0)


def check_factory(case, ctx: Ctx):
    from physt._construction import calculate_1d_bins

    data = [float(x) for x in case["data"]]
    arr = np.array(data, dtype=float)
    spec = case["spec"]
    kind = spec["kind"]
    kwargs = dict(spec.get("kwargs", {}))
    if "range" in kwargs:
        kwargs["range"] = tuple(kwargs["range"])
    arg = spec.get("arg")
    if kind == "int" and spec.get("count_type"):
        # a bin count that comes out of a numpy computation
        arg = {"np_int64": np.int64, "np_int32": np.int32, "np_intp": np.intp}[spec["count_type"]](arg)
        ctx.label("numpy_integer_bin_count")
    if kind == "edges":
        arg = np.array(arg)
    elif kind == "pairs":
        arg = np.array(arg)
    ctx.label("kind_" + kind)
    lo, hi = min(data), max(data)
    n = len(data)
    span = hi - lo
    big_span = lo > 0 and hi / lo >= 1e3 or (lo < 0 < hi and False)
    offset_heavy = span > 0 and max(abs(lo), abs(hi)) / span >= 1e3

    if span == 0 and kind not in ("edges", "pairs"):
        # one distinct value: no data-derived binning is promised (numpy refuses it too)
        ctx.label("degenerate_data")
        ctx.maybe(calculate_1d_bins, arr, arg, **kwargs)
        return
    tiny_range = kind not in ("edges", "pairs") and span <= 4096 * math.ulp(max(abs(lo), abs(hi)))
    if tiny_range:
        # |offset|/range beyond 1e12: outside the "14 orders of magnitude" the property speaks of for
        # width-based rules; numpy-style bins must still be well-formed and cover the data if produced
        ctx.label("tiny_range")
        ok, b = ctx.maybe(calculate_1d_bins, arr, arg, **kwargs)
        if ok and kind in ("int", "none", "numpy", "sturges", "sqrt", "rice") and "range" not in kwargs:
            ps = well_formed(b.bins, kind)
            require(ps[0][0] <= lo and hi <= ps[-1][1], "not_covered", f"{kind}: [{ps[0][0]!r},{ps[-1][1]!r}] vs data [{lo!r},{hi!r}]")
            ctx.nt()
        return
    ok, b = ctx.maybe(calculate_1d_bins, arr, arg, **kwargs)
    if not ok:
        # a valid specification over non-degenerate data must produce a binning;
        # documented / legitimate refusals: degenerate data, duplicate quantile edges
        legit = span == 0 or (kind == "quantile") or (kind == "exponential" and lo <= 0) or not math.isfinite(span)
        require(legit, "refused_valid_spec", f"{kind} {arg!r} {kwargs}: {type(b).__name__}: {b}")
        ctx.label("refused_" + kind)
        return
    ps = well_formed(b.bins, kind)
    first, last = ps[0][0], ps[-1][1]
    require(b.bin_count == len(ps), "bin_count", f"{b.bin_count} vs {len(ps)}")
    require(float(b.first_edge) == first and float(b.last_edge) == last, "first_last_edge", f"{b.first_edge},{b.last_edge} vs {first},{last}")
    rng = kwargs.get("range")
    # data-driven rules look only at the values inside the requested range (both ends included)
    data_in = [v for v in data if rng[0] <= v <= rng[1]] if rng is not None else data
    n_in = len(data_in)
    # ---- coverage
    if kind in ("edges", "pairs"):
        pass
    elif kind == "exponential":
        if rng is None:
            require(first <= lo * (1 + 1e-12) and last >= hi * (1 - 1e-12), "not_covered", f"[{first!r},{last!r}] vs data [{lo!r},{hi!r}]")
        else:
            require(first <= rng[0] * (1 + 1e-12) and last >= rng[1] * (1 - 1e-12), "range_not_covered", f"[{first!r},{last!r}] vs range {rng}")
            require(first >= rng[0] * (1 - 1e-12) and last <= rng[1] * (1 + 1e-12), "range_exceeded", f"[{first!r},{last!r}] vs range {rng}")
    elif kind == "integer" and rng is not None:
        # documented: range = (first integer included, last integer excluded)
        bw_ = kwargs.get("bin_width", 1)
        require(first <= rng[0] - 0.5 < first + bw_ and last - bw_ < rng[1] - 0.5 <= last, "integer_range", f"[{first!r},{last!r}] for integers {rng}")
    elif kind == "quantile":
        q = spec.get("qs")
        qr = kwargs.get("qrange")
        if (q is None and (qr is None or (qr[0] == 0.0 and qr[1] == 1.0))) or (q is not None and min(q) == 0.0 and max(q) == 1.0):
            lo_q, hi_q = (min(data_in), max(data_in)) if data_in else (lo, hi)
            require(first <= lo_q and last >= hi_q, "not_covered", f"[{first!r},{last!r}] vs data in range [{lo_q!r},{hi_q!r}]")
    elif rng is not None:
        require(first <= rng[0] and last >= rng[1], "range_not_covered", f"[{first!r},{last!r}] vs range {rng}")
    else:
        require(first <= lo and hi <= last, "not_covered", f"{kind}: [{first!r},{last!r}] vs data [{lo!r},{hi!r}] {kwargs}")
    edges = [p[0] for p in ps] + [last]
    consecutive = all(a[1] == b_[0] for a, b_ in zip(ps[:-1], ps[1:]))
    # ---- rules
    if kind in ("int", "none", "numpy", "sturges", "sqrt", "rice", "doane"):
        require(consecutive, "numpy_style_gapped", "")
        if kind == "int":
            count = arg
        elif kind == "none":
            count = 10
        elif kind == "numpy":
            count = kwargs.get("bin_count", 10)
        else:
            n = n_in  # (the rules count the values in the range)
            real = {"sturges": lambda: math.log2(n) + 1 if not near_int(math.log2(n)) else None,
                    "sqrt": lambda: math.sqrt(n),
                    "rice": lambda: 2 * n ** (1 / 3),
                    "doane": lambda: (1 + math.log2(n) + math.log2(1 + abs(my_skew(data_in)) / math.sqrt(6 * (n - 2) / ((n + 1) * (n + 3))))) if n >= 3 else 0.5}[kind]()
            if kind == "sturges":
                count = math.ceil(math.log2(n)) + 1
                real = None
            else:
                count = None if (real is None or near_int(real) or math.isnan(real)) else max(1, math.ceil(real))
        if count is not None:
            require(len(ps) == count, "bin_count_rule", f"{kind}: {len(ps)} bins, rule gives {count} (n={n})")
            try:
                with np.errstate(all="ignore"):
                    ref = np.histogram_bin_edges(arr, bins=count, range=rng)
                numpy_ok = bool(np.all(np.diff(ref) > 0))
            except Exception:
                numpy_ok = False
            if numpy_ok:
                require(np.array_equal(np.array(edges), ref), "numpy_edges", f"{kind}: {edges[:3]}..{edges[-2:]} vs numpy {ref[:3]}..{ref[-2:]}")
                ctx.label("numpy_agrees")
        else:
            ctx.label("rule_near_integer_skipped")
    elif kind in ("fixed_width", "integer", "pretty"):
        require(consecutive, "fixed_gapped", "")
        widths = [r - l for l, r in ps]
        w = float(b.bin_width)
        for x in widths:
            require(abs(x - w) <= 1e-9 * w + 4 * math.ulp(max(abs(first), abs(last))), "unequal_width", f"{x!r} vs {w!r}")
        if kind == "fixed_width":
            require(w == float(kwargs["bin_width"]), "width_rule", f"{w} vs {kwargs['bin_width']}")
            shift = float(kwargs.get("bin_shift") or 0.0)
            if kwargs.get("align", True):
                for e in edges:
                    q = (e - shift) / w
                    require(abs(q - round(q)) <= 1e-9 * max(1.0, abs(q)) + 8 * math.ulp(max(abs(e), w)) / w, "off_grid", f"edge {e!r} width {w!r} shift {shift!r}")
        elif kind == "integer":
            bw = kwargs.get("bin_width", 1)
            require(w == float(bw), "width_rule", f"{w} vs {bw}")
            for e in edges:
                q = (e - 0.5) / w
                require(abs(q - round(q)) <= 1e-9 * max(1.0, abs(q)), "integer_bins_not_centred", f"edge {e!r}")
            if bw == 1 and rng is None:
                for v in data:
                    if float(v).is_integer() and abs(v) < 2 ** 50:
                        i = model.locate(ps, v)
                        require(isinstance(i, int) and 0 <= i < len(ps) and ps[i][0] == v - 0.5 and ps[i][1] == v + 0.5, "integer_not_centred", f"{v!r} in {ps[i] if isinstance(i, int) and 0 <= i < len(ps) else i}")
        else:  # pretty
            lo_, hi_ = (rng if rng is not None else (lo, hi))
            bc = kwargs.get("bin_count")
            if bc is None:
                # the default bin count looks only at the values inside the requested range
                n_eff = n if rng is None else sum(1 for v in data if rng[0] <= v <= rng[1])
                bc = 1 if n_eff < 1 else (7 if n_eff <= 32 else math.ceil(math.log2(n_eff)) + 1)
            raw = (hi_ - lo_) / bc
            k = math.floor(math.log10(w) + 1e-12)
            mant = w / 10.0 ** k
            clamp_lo, clamp_hi = kwargs.get("min_bin_width"), kwargs.get("max_bin_width")
            clamped = (clamp_lo and w == clamp_lo) or (clamp_hi and w == clamp_hi)
            if not clamped:
                require(any(abs(mant - m) <= 1e-9 * m for m in PRETTY_MANTISSAS + (10.0,)), "width_not_pretty", f"width {w!r} mantissa {mant!r}")
                kr = math.floor(math.log10(raw))
                cands = [m * 10.0 ** kk for kk in (kr - 1, kr, kr + 1) for m in PRETTY_MANTISSAS]
                best = min(abs(math.log(c / raw)) for c in cands)
                require(abs(math.log(w / raw)) <= best + 1e-9, "width_not_nearest", f"width {w!r} for raw {raw!r}; nearest distance {best!r} got {abs(math.log(w / raw))!r}")
            if clamp_lo:
                require(w >= clamp_lo, "below_min_bin_width", f"{w} < {clamp_lo}")
            if clamp_hi:
                require(w <= clamp_hi, "above_max_bin_width", f"{w} > {clamp_hi}")
        if rng is not None and kind != "integer":
            # tight around the requested range as well
            # (an end of the range that nominally sits on a grid edge may get one more bin through rounding)
            slack = 1e-9 * w + 8 * math.ulp(max(abs(first), abs(last), abs(rng[0]), abs(rng[1])))  # (edges are rounded at their own magnitude)
            require(first + w > rng[0] - slack and last - w < rng[1] + slack, "superfluous_bin_outside_range", f"[{first!r},{last!r}] width {w!r} range {rng}")
        if rng is None:
            # tight: no superfluous empty bin on either side
            require(model.locate(ps, lo, False) in (0,), "superfluous_left_bin", f"min {lo!r} first bins {ps[:2]}")
            require(model.locate(ps, hi, True) == len(ps) - 1 or model.locate(ps, hi, False) == len(ps) - 1, "superfluous_right_bin", f"max {hi!r} last bins {ps[-2:]}")
    elif kind == "quantile":
        sd = sorted(data_in)
        qs = spec.get("qs")
        if qs is None:
            qr = kwargs.get("qrange", (0.0, 1.0))
            bc = kwargs["bin_count"]
            qs = [qr[0] + (qr[1] - qr[0]) * i / bc for i in range(bc + 1)]
        require(consecutive and len(edges) == len(qs), "quantile_count", f"{len(edges)} edges for {len(qs)} quantiles")
        scale = max(abs(lo), abs(hi), 1e-300)
        for e, q in zip(edges, qs):
            want = my_quantile(sd, q)
            require(abs(e - want) <= 1e-12 * scale + 1e-9 * abs(span) * 1e-3, "quantile_edge", f"q={q}: {e!r} vs {want!r}")
    elif kind == "exponential":
        require(consecutive, "exp_gapped", "")
        ratios = [math.log10(r) - math.log10(l) for l, r in ps]  # log space: no overflow for extreme spans
        for r_ in ratios:
            require(abs(r_ - ratios[0]) <= 1e-10 * max(1.0, abs(math.log10(ps[0][0])), abs(math.log10(ps[-1][1]))), "not_geometric", f"log-widths {ratios[:4]}")
        if "bin_count" in kwargs:
            require(len(ps) == kwargs["bin_count"], "bin_count_rule", f"{len(ps)} vs {kwargs['bin_count']}")
    elif kind == "edges":
        require(edges == [float(x) for x in spec["arg"]], "edges_differ_from_spec", f"{edges} vs {spec['arg']}")
    elif kind == "pairs":
        require([list(p) for p in ps] == [[float(a), float(b_)] for a, b_ in spec["arg"]], "pairs_differ_from_spec", "")
        if not consecutive:
            ctx.label("gapped")
            ctx.nt()
    decades = math.log10(hi / lo) if lo > 0 else (math.log10(max(abs(lo), abs(hi)) / max(min(abs(x) for x in data if x != 0), 1e-300)) if any(x != 0 for x in data) else 0)
    ctx.nt(decades >= 3 or offset_heavy)
    if offset_heavy:
        ctx.label("offset_heavy")
    if decades >= 3:
        ctx.label("spans_decades")


@st.composite
def datasets(draw, positive=False):
    n = draw(st.integers(2, 200)) if draw(st.integers(0, 4)) == 0 else draw(st.integers(2, 40))
    shape = draw(st.sampled_from(["uniform", "uniform", "int", "decimal", "lognormal", "offset", "ulps"]))
    if shape == "ulps":  # a range of only a few representable numbers
        base = draw(st.sampled_from([1.0, -1.0, 0.1, 1e6, 123.456, 1e-3]))
        n = min(n, 12)
        data = []
        for k in draw(st.lists(st.integers(0, 25), min_size=n, max_size=n)):
            v = base
            for _ in range(k):
                v = math.nextafter(v, math.inf)
            data.append(v)
        return data
    if shape == "int":
        data = [float(x) for x in draw(st.lists(st.integers(-30, 60), min_size=n, max_size=n))]
    elif shape == "decimal":
        data = [round(x * 0.1, 6) for x in draw(st.lists(st.integers(-100, 300), min_size=n, max_size=n))]
    elif shape == "lognormal":
        e0 = draw(st.integers(-7, 4))
        data = [10.0 ** (e0 + x) for x in draw(st.lists(st.floats(0, 4, allow_nan=False), min_size=n, max_size=n))]
    elif shape == "offset":
        base = draw(st.sampled_from([1e3, -1e3, 1e6, -1e6, 1e9, 12345.678]))
        scale = draw(st.sampled_from([1e-3, 1.0, 10.0]))
        data = [base + x * scale for x in draw(st.lists(st.floats(0, 10, allow_nan=False), min_size=n, max_size=n))]
    else:
        base, scale = draw(st.sampled_from(gen._BASE_SCALE[:-1]))
        data = [base + x * scale for x in draw(st.lists(st.floats(0, 10, allow_nan=False), min_size=n, max_size=n))]
    if positive:
        m = min(data)
        if m <= 0:
            data = [x - m + 10.0 ** draw(st.integers(-4, 1)) for x in data]
    if draw(st.booleans()):
        data = data + data[: n // 3]
    if draw(st.booleans()):
        data = data + [float(round(min(data))), float(round(max(data)))] if not positive else data
    return data


@st.composite
def factory_cases(draw, tier="quick"):
    kind = draw(st.sampled_from(["int", "none", "numpy", "sturges", "sqrt", "rice", "doane", "fixed_width", "fixed_width", "pretty", "pretty",
                                 "integer", "quantile", "exponential", "edges", "pairs"]))
    data = draw(datasets(positive=(kind == "exponential")))
    lo, hi = min(data), max(data)
    span = (hi - lo) or 1.0
    spec = {"kind": kind, "kwargs": {}}
    kw = spec["kwargs"]
    if kind == "int":
        spec["arg"] = draw(st.integers(1, 30))
        spec["count_type"] = draw(st.sampled_from([None, None, "np_int64", "np_int32", "np_intp"]))
        if draw(st.booleans()):
            kw["range"] = [lo - span * draw(st.sampled_from([0.0, 0.5])), hi + span * draw(st.sampled_from([0.0, 0.25, 1.0]))]
    elif kind == "none":
        spec["arg"] = None
    elif kind == "numpy":
        spec["arg"] = "numpy"
        if draw(st.booleans()):
            kw["bin_count"] = draw(st.integers(1, 30))
        if draw(st.booleans()):
            kw["range"] = [lo - span * draw(st.sampled_from([0.0, 0.5])), hi + span * draw(st.sampled_from([0.0, 0.25]))]
    elif kind in ("sturges", "sqrt", "rice", "doane"):
        spec["arg"] = kind
        sd_ = sorted(set(data))
        if len(sd_) >= 6 and draw(st.integers(0, 2)) == 0:
            # a requested range whose ends are data values (both belong to the range)
            a_ = draw(st.integers(0, len(sd_) // 3))
            b_ = draw(st.integers(2 * len(sd_) // 3, len(sd_) - 1))
            kw["range"] = [sd_[a_], sd_[b_]]
    elif kind == "fixed_width":
        spec["arg"] = "fixed_width"
        cnt = draw(st.integers(1, 40))
        kw["bin_width"] = draw(st.sampled_from([span / cnt, float(f"{span / cnt:.2g}"), span * 2]))
        if kw["bin_width"] <= 0:
            kw["bin_width"] = span
        if draw(st.booleans()):
            kw["align"] = False
        elif draw(st.booleans()):
            kw["bin_shift"] = kw["bin_width"] * draw(st.sampled_from([0.5, 0.25]))
        if draw(st.integers(0, 2)) == 0:
            kw["range"] = [lo - span * draw(st.sampled_from([0.0, 0.5, -0.25])), hi + span * draw(st.sampled_from([0.0, 0.25, 1.0, -0.25]))]
    elif kind == "pretty":
        spec["arg"] = "pretty"
        if draw(st.booleans()):
            kw["bin_count"] = draw(st.integers(1, 40))
        if draw(st.integers(0, 2)) == 0:
            kw["range"] = [lo - span * draw(st.sampled_from([0.0, 0.5, -0.25])), hi + span * draw(st.sampled_from([0.0, 0.25, 1.0, -0.25]))]
        r = draw(st.integers(0, 5))
        if r == 0:
            kw["min_bin_width"] = span / 3
        elif r == 1:
            kw["max_bin_width"] = span / 50
    elif kind == "integer":
        spec["arg"] = "integer"
        if span > 3000:
            kw["bin_width"] = int(span // 100) + 1
        elif draw(st.integers(0, 2)) == 0 and abs(lo) < 1e6 and abs(hi) < 1e6:
            kw["range"] = [math.floor(lo) - draw(st.integers(0, 3)), math.ceil(hi) + 1 + draw(st.integers(0, 3))]
    elif kind == "quantile":
        spec["arg"] = "quantile"
        sd_ = sorted(set(data))
        if len(sd_) >= 6 and draw(st.integers(0, 2)) == 0:
            a_ = draw(st.integers(0, len(sd_) // 3))
            b_ = draw(st.integers(2 * len(sd_) // 3, len(sd_) - 1))
            kw["range"] = [sd_[a_], sd_[b_]]
        if draw(st.booleans()):
            kw["bin_count"] = draw(st.integers(1, 10))
            if draw(st.booleans()):
                kw["qrange"] = draw(st.sampled_from([[0.1, 0.9], [0.0, 0.5], [0.25, 1.0]]))
        else:
            qs = sorted(set(draw(st.lists(st.sampled_from([0.0, 0.05, 0.1, 0.25, 0.5, 0.75, 0.9, 1.0]), min_size=2, max_size=6))))
            if len(qs) < 2:
                qs = [0.0, 1.0]
            kw["q"] = qs
            spec["qs"] = qs
    elif kind == "exponential":
        spec["arg"] = "exponential"
        if draw(st.booleans()):
            kw["bin_count"] = draw(st.integers(1, 20))
        if draw(st.integers(0, 2)) == 0:
            kw["range"] = [max(lo * draw(st.sampled_from([1.0, 0.5, 0.01])), 1e-300), hi * draw(st.sampled_from([1.0, 2.0, 100.0]))]
    elif kind == "edges":
        spec["arg"] = draw(gen.edges(1, 12))
    else:
        spec["arg"] = draw(gen.pairs(1, 12))
    return {"data": data, "spec": spec}


# ---------------------------------------------------------------------------------
# representation consistency


def check_representation(case, ctx: Ctx):
    from physt.binnings import StaticBinning

    ax = case["axis"]
    b = ctx.call("build binning", hgen.build_axis, ax)
    if isinstance(b, np.ndarray):
        from physt.binnings import as_binning

        b = ctx.call("as_binning", as_binning, b)
    ctx.label("class_" + type(b).__name__)
    ps = well_formed(b.bins, type(b).__name__)
    if ax["form"] not in ("fixed", "exp"):
        require([list(p) for p in ps] == [[float(x) for x in p] for p in ax["pairs"]], "bins_differ_from_spec", f"{ps} vs {ax['pairs']}")
    n = len(ps)
    require(b.bin_count == n, "bin_count", f"{b.bin_count} vs {n}")
    require(float(b.first_edge) == ps[0][0] and float(b.last_edge) == ps[-1][1], "first_last_edge", f"{b.first_edge},{b.last_edge}")
    gapped_exact = bool(model.gaps(ps))
    # is_consecutive vs own test at the same (documented) tolerances
    cons = b.is_consecutive()
    want_cons = model.physt_consecutive(ps) if type(b).inconsecutive_allowed else True
    require(bool(cons) == want_cons, "is_consecutive", f"{cons} vs {want_cons} for {ps}")
    if not type(b).inconsecutive_allowed:
        require(not gapped_exact, "gapped_but_class_forbids", "")
    # numpy_bins
    if want_cons:
        nb = ctx.call("numpy_bins (a 1-D array of edges)", lambda: [float(x) for x in b.numpy_bins])
        require(len(nb) == n + 1 and nb[0] == ps[0][0] and all(nb[i + 1] == ps[i][1] for i in range(n)), "numpy_bins", f"{nb} vs {ps}")
    else:
        ctx.refused("numpy_bins of a gapped binning", lambda: b.numpy_bins)
        ctx.label("gapped")
        ctx.nt()
    # masked edges
    edges, mask = ctx.call("numpy_bins_with_mask", lambda: b.numpy_bins_with_mask)
    edges = [float(x) for x in edges]
    mask = [int(x) for x in mask]
    has_inf = len(edges) > 0 and math.isinf(edges[-1])
    require(has_inf == (not b.includes_right_edge), "inf_sentinel", f"inf {has_inf} incl {b.includes_right_edge}")
    fin = edges[:-1] if has_inf else edges
    require(all(a < c for a, c in zip(fin[:-1], fin[1:])), "mask_edges_not_rising", f"{fin}")
    require(len(mask) == n, "mask_length", f"{len(mask)} vs {n}")
    for i, m in enumerate(mask):
        require(0 <= m < len(fin) - 1 and fin[m] == ps[i][0] and fin[m + 1] == ps[i][1], "mask_selects_wrong_bin", f"bin {i} {ps[i]} -> mask {m} edges {fin}")
    require(len(fin) - 1 == n + len(model.gaps(ps)), "mask_edge_count", f"{len(fin)} edges for {n} bins and {len(model.gaps(ps))} gaps")
    # is_regular vs own width test at the same tolerance (allclose(diff(widths), 0) == |dw| <= atol)
    widths = [r - l for l, r in ps]
    want_reg = all(abs(b_ - a) <= 1e-8 for a, b_ in zip(widths[:-1], widths[1:]))
    tname = type(b).__name__
    if tname == "FixedWidthBinning":
        want_reg = True
    if tname == "ExponentialBinning":
        if n >= 2 and not want_reg:
            require(b.is_regular() is False or not b.is_regular(), "is_regular", "exponential")
    else:
        reg = ctx.call("is_regular", b.is_regular)
        require(bool(reg) == want_reg, "is_regular", f"{reg} vs {want_reg} widths {widths}")
    # copy
    c = ctx.call("copy", b.copy)
    require(c is not b and type(c) is type(b), "copy_type", "")
    require(c == b and b == c and b == b, "copy_not_equal", "")
    require([list(p) for p in model.pairs_of(c.bins)] == [list(p) for p in ps], "copy_bins", "")
    require(bool(c.includes_right_edge) == bool(b.includes_right_edge) and c.is_adaptive() == b.is_adaptive(), "copy_flags", f"{c.includes_right_edge}/{b.includes_right_edge} {c.is_adaptive()}/{b.is_adaptive()}")
    if b.is_adaptive():
        # growth of the copy must not leak into the original
        c.force_bin_existence(ps[-1][1] + 3 * (ps[-1][1] - ps[-1][0]))
        require([list(p) for p in model.pairs_of(b.bins)] == [list(p) for p in ps], "copy_shares_state", "")
        require(c.bin_count > n, "adaptive_copy_did_not_grow", "")
        ctx.label("adaptive")
    # equality is false for different edges / class
    other = StaticBinning(np.array([[p[0], p[1]] for p in ps[:-1]] + [[ps[-1][0], ps[-1][1] + (ps[-1][1] - ps[-1][0])]]))
    require(not (b == other) and not (other == b), "eq_different_edges", "")
    if tname != "StaticBinning":
        same_static = StaticBinning(np.array(ps), includes_right_edge=b.includes_right_edge)
        require(not (b == same_static) and not (same_static == b), "eq_different_class", "")
    # as_static
    s = ctx.call("as_static", b.as_static)
    require(type(s).__name__ == "StaticBinning" and [list(p) for p in model.pairs_of(s.bins)] == [list(p) for p in ps], "as_static", "")
    # slicing
    i, j = case["slice"]
    i, j = i % (n + 1), j % (n + 1)
    if i > j:
        i, j = j, i
    if i < j:
        for sl in (slice(i, j), slice(i - n if i else None, j if j < n else None)):
            sub = ctx.call(f"b[{sl}]", b.__getitem__, sl)
            want = ps[sl]
            require([list(p) for p in model.pairs_of(sub.bins)] == [list(p) for p in want], "slice_bins", f"{sl}: {model.pairs_of(sub.bins)} vs {want}")
            require(sub.bin_count == len(want), "slice_bin_count", f"{sub.bin_count}")
            require(float(sub.first_edge) == want[0][0] and float(sub.last_edge) == want[-1][1], "slice_first_last", f"{sub.first_edge},{sub.last_edge} vs {want[0][0]},{want[-1][1]}")
            sub_gapped = bool(model.gaps(want))
            require(bool(sub.is_consecutive()) == model.physt_consecutive(want), "slice_is_consecutive", f"{sub.is_consecutive()} for {want}")
        ctx.label("sliced")
    # original untouched by all of the above
    require([list(p) for p in model.pairs_of(b.bins)] == [list(p) for p in ps], "source_modified", "")
    ctx.nt(len({round(w, 12) for w in widths}) >= 3)


@st.composite
def representation_cases(draw, tier="quick"):
    adaptive = draw(st.sampled_from([False, False, False, True]))
    ax = draw(hgen.axis(1, 10, adaptive=adaptive))
    return {"axis": ax, "slice": [draw(st.integers(0, 20)), draw(st.integers(0, 20))]}


# ---------------------------------------------------------------------------------
# refusals


def check_refusals(case, ctx: Ctx):
    import physt
    from physt.binnings import NumpyBinning, StaticBinning

    kind = case["kind"]
    data = np.array(case["data"], dtype=float)
    ctx.label("refusal_" + kind)
    ctx.nt()
    bad = case.get("bad")
    if case.get("edge_dtype"):
        # the same malformed / valid specification as an integer array (unsigned types wrap around in differences)
        bad = np.array(bad, dtype=case["edge_dtype"])
        ctx.label("edge_dtype_" + case["edge_dtype"])
    if kind == "valid_int_edges":
        from physt._construction import calculate_1d_bins

        b = ctx.call("integer edge array", calculate_1d_bins, data, bad)
        want = [[float(a), float(c)] for a, c in zip(case["bad"][:-1], case["bad"][1:])]
        require(np.asarray(b.bins, dtype=float).tolist() == want, "int_edges_differ_from_spec", f"{np.asarray(b.bins).tolist()} vs {want}")
        sb = ctx.call("StaticBinning(integer pairs)", StaticBinning, np.array(want).astype(case["edge_dtype"]))
        require(np.asarray(sb.bins, dtype=float).tolist() == want, "int_pairs_differ_from_spec", f"{np.asarray(sb.bins).tolist()} vs {want}")
        return
    if kind in ("unsorted_edges", "duplicate_edge"):
        ctx.refused("h1 with " + kind, physt.h1, data, np.array(bad))
        ctx.refused("NumpyBinning with " + kind, NumpyBinning, np.array(bad))
        ctx.refused("StaticBinning with " + kind, StaticBinning, np.array(bad))
    elif kind in ("overlapping_pairs", "zero_width_pair", "reversed_pair", "unsorted_pairs"):
        ctx.refused("h1 with " + kind, physt.h1, data, np.array(bad))
        ctx.refused("StaticBinning with " + kind, StaticBinning, np.array(bad))
        ctx.refused("h with " + kind, physt.h, np.stack([data, data], axis=1), [np.array(bad), np.array([0.0, 1.0])])
    elif kind == "nan_edge":
        # an undefined edge makes the neighbouring bins meaningless (neither rising nor comparable)
        ctx.refused("h1 with a NaN edge", physt.h1, data, np.array(bad))
        ctx.refused("StaticBinning with a NaN edge", StaticBinning, np.array(bad))
        if np.array(bad).ndim == 1:
            ctx.refused("NumpyBinning with a NaN edge", NumpyBinning, np.array(bad))
    elif kind == "shape_n3":
        ctx.refused("h1 with (n,3) bins", physt.h1, data, np.array(bad))
        ctx.refused("StaticBinning with (n,3)", StaticBinning, np.array(bad))
    elif kind == "ndim3":
        ctx.refused("h1 with 3-D bins", physt.h1, data, np.array(bad))
    elif kind == "single_edge":
        ctx.refused("h1 with a single edge", physt.h1, data, np.array(bad))
    elif kind == "unknown_method":
        ctx.refused("h1 unknown method", physt.h1, data, case["name"])
    elif kind == "q_and_bin_count":
        ctx.refused("quantile q + bin_count", physt.h1, data, "quantile", q=[0.0, 0.5, 1.0], bin_count=3)
        ctx.refused("quantile without q and bin_count", physt.h1, data, "quantile")
    elif kind == "nonpositive_width":
        ctx.refused("fixed_width bin_width <= 0", physt.h1, data, "fixed_width", bin_width=case["w"])
    elif kind == "noninteger_bin_count":
        ctx.refused("numpy bin_count float", physt.h1, data, "numpy", bin_count=2.5)


@st.composite
def refusal_cases(draw, tier="quick"):
    kind = draw(st.sampled_from(["unsorted_edges", "duplicate_edge", "overlapping_pairs", "zero_width_pair", "reversed_pair", "unsorted_pairs",
                                 "shape_n3", "ndim3", "single_edge", "unknown_method", "q_and_bin_count", "nonpositive_width", "noninteger_bin_count",
                                 "valid_int_edges", "nan_edge"]))
    data = draw(st.lists(st.floats(-5, 5, allow_nan=False), min_size=3, max_size=10))
    if max(data) == min(data):
        data = data + [min(data) + 1.0]
    case = {"kind": kind, "data": data}
    e = draw(gen.edges(2, 8))
    i = draw(st.integers(0, len(e) - 2))
    if kind == "unsorted_edges":
        e[i], e[i + 1] = e[i + 1], e[i]
        case["bad"] = e
    elif kind == "duplicate_edge":
        e[i + 1] = e[i]
        case["bad"] = e
    elif kind in ("overlapping_pairs", "zero_width_pair", "reversed_pair", "unsorted_pairs"):
        ps = [[a, b] for a, b in zip(e[:-1], e[1:])]
        j = draw(st.integers(0, len(ps) - 2))
        if kind == "overlapping_pairs":
            ps[j][1] = ps[j][1] + (ps[j + 1][1] - ps[j + 1][0]) / 2
        elif kind == "zero_width_pair":
            ps[j][1] = ps[j][0]
        elif kind == "reversed_pair":
            ps[j] = [ps[j][1], ps[j][0]]
        else:
            ps[j], ps[j + 1] = ps[j + 1], ps[j]
        case["bad"] = ps
    elif kind == "nan_edge":
        if draw(st.booleans()):
            e2 = list(e)
            e2[draw(st.integers(0, len(e2) - 1))] = float("nan")
            case["bad"] = e2
        else:
            ps = [[a, b] for a, b in zip(e[:-1], e[1:])]
            ps[draw(st.integers(0, len(ps) - 1))][draw(st.integers(0, 1))] = float("nan")
            case["bad"] = ps
    elif kind == "shape_n3":
        case["bad"] = [[a, a + 1.0, a + 2.0] for a in e[:3]]
    elif kind == "ndim3":
        case["bad"] = [[[0.0, 1.0]], [[1.0, 2.0]]]
    elif kind == "single_edge":
        case["bad"] = [e[0]]
    elif kind == "unknown_method":
        case["name"] = draw(st.sampled_from(["nonsense", "Numpy", "fixed", "prety", ""]))
    elif kind == "nonpositive_width":
        case["w"] = draw(st.sampled_from([0, 0.0, -1.0, -0.5]))
    elif kind == "valid_int_edges":
        dt = draw(st.sampled_from(["int16", "uint8", "uint16", "int32", "uint64", "int8"]))
        info = np.iinfo(dt)
        # rising edges that span most of the type's range (differences do not fit into the type)
        pool = sorted(set([int(info.min), int(info.min) // 2, -3, 0, 5, int(info.max) // 2, int(info.max) - 1, int(info.max)]))
        pool = [v for v in pool if info.min <= v <= info.max and abs(v) < 2 ** 53]
        k = draw(st.integers(2, len(pool)))
        idx = sorted(draw(st.lists(st.integers(0, len(pool) - 1), min_size=k, max_size=k, unique=True)))
        case["bad"] = [pool[i] for i in idx]
        case["edge_dtype"] = dt
    if kind in ("unsorted_edges", "duplicate_edge", "overlapping_pairs", "zero_width_pair", "reversed_pair", "unsorted_pairs") and draw(st.integers(0, 2)) == 0:
        # integer-valued version in a narrow / unsigned integer type
        dt = draw(st.sampled_from(["uint8", "uint16", "uint32", "uint64", "int16", "int64"]))
        n_ = draw(st.integers(2, 6))
        ie = sorted(draw(st.lists(st.integers(0, 120), min_size=n_ + 1, max_size=n_ + 1, unique=True)))
        i = draw(st.integers(0, len(ie) - 2))
        if kind == "unsorted_edges":
            ie[i], ie[i + 1] = ie[i + 1], ie[i]
            case["bad"] = ie
        elif kind == "duplicate_edge":
            ie[i + 1] = ie[i]
            case["bad"] = ie
        else:
            ps = [[a, b] for a, b in zip(ie[:-1], ie[1:])]
            j = draw(st.integers(0, len(ps) - 2))
            if kind == "overlapping_pairs":
                ps[j][1] = ps[j + 1][1]
            elif kind == "zero_width_pair":
                ps[j][1] = ps[j][0]
            elif kind == "reversed_pair":
                ps[j] = [ps[j][1], ps[j][0]]
            else:
                ps[j], ps[j + 1] = ps[j + 1], ps[j]
            case["bad"] = ps
        case["edge_dtype"] = dt
    return case


FINDINGS = []

SUBS = [
    Sub("factory", lambda tier: factory_cases(tier), check_factory, quick=2200, thorough=8000),
    Sub("representation", lambda tier: representation_cases(tier), check_representation, quick=700, thorough=5000),
    Sub("refusals", lambda tier: refusal_cases(tier), check_refusals, quick=600, thorough=1500),
]

RULE += ' Also: range= for fixed_width / pretty / integer / exponential (coverage of the range, tightness, integer half-open convention); malformed and valid specifications as narrow / unsigned integer arrays.'
