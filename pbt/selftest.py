"""Sensitivity self-test (developer tooling, not a registered command).

    ./check --selftest C01                 # all mutants/C01/*.patch and seeded/*/ that name C01
    ./check --selftest C01 path/to.patch   # one patch

Each patch is applied to a scratch copy of /repo/src outside /repo and /verif, the
quick check is run against the copy (PBT_SRC) and must exit 1 with a VIOLATION line.
The scratch copy is removed afterwards.
"""
from __future__ import annotations

import glob
import json
import os
import shutil
import subprocess
import sys
import tempfile
import time

VERIF = os.path.dirname(os.path.dirname(os.path.abspath(__file__)))


def patches_for(pid: str):
    out = sorted(glob.glob(os.path.join(VERIF, "mutants", pid, "*.patch")))
    for meta in sorted(glob.glob(os.path.join(VERIF, "seeded", "*", "meta.json"))):
        try:
            m = json.load(open(meta))
        except Exception:
            continue
        if m.get("obsolete"):
            continue  # neutralised by a later fix in /repo (see meta.json: obsolete_reason)
        props = m.get("property") if isinstance(m.get("property"), list) else [m.get("property")]
        if pid in props or pid in m.get("also_caught_by", []):
            out.append(os.path.join(os.path.dirname(meta), "patch.diff"))
    return out


def run_one(pid: str, patch: str, tier: str = "quick", extra_env=None):
    tmp = tempfile.mkdtemp(prefix="pbt-mutant-")
    try:
        shutil.copytree("/repo/src", os.path.join(tmp, "src"), ignore=shutil.ignore_patterns("__pycache__"))
        r = subprocess.run(["patch", "-p1", "-s", "-d", tmp, "-i", os.path.abspath(patch)], capture_output=True, text=True)
        if r.returncode != 0:
            return "PATCH-FAILED", r.stdout + r.stderr, 0.0
        env = dict(os.environ, PBT_SRC=os.path.join(tmp, "src"))
        env.update(extra_env or {})
        t0 = time.time()
        r = subprocess.run([os.path.join(VERIF, "check"), pid, "--tier", tier, "--no-evidence"], capture_output=True, text=True, env=env, cwd=VERIF)
        dt = time.time() - t0
        out = r.stdout + r.stderr
        if r.returncode == 1 and "VIOLATION property=" in out:
            return "CAUGHT", out, dt
        if r.returncode == 0:
            return "MISSED", out, dt
        return f"EXIT-{r.returncode}", out, dt
    finally:
        shutil.rmtree(tmp, ignore_errors=True)


def main(argv):
    pid = argv[0].upper()
    patches = argv[1:] or patches_for(pid)
    bad = 0
    for p in patches:
        status, out, dt = run_one(pid, p)
        vio = [ln for ln in out.splitlines() if ln.startswith("  sub=")]
        print(f"{status:12s} {dt:6.1f}s {os.path.relpath(p, VERIF)}  {vio[0].strip() if vio else ''}")
        if status != "CAUGHT":
            bad += 1
            if status != "MISSED":
                print(out[-1500:])
    print(f"{pid}: {len(patches) - bad}/{len(patches)} mutants caught")
    return 1 if bad else 0


if __name__ == "__main__":
    sys.exit(main(sys.argv[1:]))
