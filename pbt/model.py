"""Reference models.  Pure Python (bisect, fractions, math); never imports physt."""
from __future__ import annotations

import math
from bisect import bisect_right
from fractions import Fraction
from typing import Any, Dict, List, Optional, Sequence, Tuple

EPS = {"float16": 2.0 ** -10, "float32": 2.0 ** -23, "float64": 2.0 ** -52, "float128": 2.0 ** -52}


def F(x) -> Fraction:
    """Exact rational value of an int / float (numpy scalars included)."""
    if isinstance(x, Fraction):
        return x
    if isinstance(x, int):
        return Fraction(x)
    v = x.item() if hasattr(x, "item") else x
    if isinstance(v, int):
        return Fraction(v)
    v = float(v)
    if math.isnan(v) or math.isinf(v):
        # a number was required here: NaN / inf coming out of the code under test is a finding, not a harness error
        from pbt.core import Violation

        raise Violation("non_finite_value", f"expected a finite number, got {v!r}")
    return Fraction(v)


def pairs_of(bins) -> List[Tuple[float, float]]:
    return [(float(b[0]), float(b[1])) for b in bins]


def pairs_from_edges(edges: Sequence[float]) -> List[Tuple[float, float]]:
    return [(float(a), float(b)) for a, b in zip(edges[:-1], edges[1:])]


def is_rising(pairs) -> bool:
    for l, r in pairs:
        if not l < r:
            return False
    for (l0, r0), (l1, r1) in zip(pairs[:-1], pairs[1:]):
        if l1 < r0:
            return False
    return True


def gaps(pairs) -> List[Tuple[float, float]]:
    return [(r0, l1) for (l0, r0), (l1, r1) in zip(pairs[:-1], pairs[1:]) if l1 != r0]


def physt_consecutive(pairs, rtol=1e-5, atol=1e-8) -> bool:
    """physt's documented, tolerance-based notion (numpy.allclose semantics)."""
    return all(abs(l1 - r0) <= atol + rtol * abs(r0) for (l0, r0), (l1, r1) in zip(pairs[:-1], pairs[1:]))


def locate(pairs, v: float, last_right_inclusive: bool = True):
    """Index of the bin containing v: left <= v < right (last bin also == right if
    last_right_inclusive).  -1 below the first edge, n above the last, None in a gap
    (or on the last edge when it is not inclusive -> n)."""
    n = len(pairs)
    lefts = [p[0] for p in pairs]
    i = bisect_right(lefts, v) - 1
    if i < 0:
        return -1
    l, r = pairs[i]
    if v < r:
        return i
    if i == n - 1:
        if v == r and last_right_inclusive:
            return i
        return n
    return None  # in a gap: right_i <= v < left_{i+1}


def hist1d(pairs, data: Sequence[float], weights: Optional[Sequence] = None, last_right_inclusive=True):
    """Exact 1-D histogram: per-bin Fraction sums of w and w^2, under/over/gap weight."""
    n = len(pairs)
    freq = [Fraction(0)] * n
    err2 = [Fraction(0)] * n
    under = over = gap = Fraction(0)
    total_in = Fraction(0)
    abs_in = 0.0
    for k, v in enumerate(data):
        if isinstance(v, float) and math.isnan(v):
            continue
        w = Fraction(1) if weights is None else F(weights[k])
        total_in += w
        abs_in += abs(float(w))
        i = locate(pairs, v, last_right_inclusive)
        if i is None:
            gap += w
        elif i == -1:
            under += w
        elif i == n:
            over += w
        else:
            freq[i] += w
            err2[i] += w * w
    return {"freq": freq, "err2": err2, "under": under, "over": over, "gap": gap,
            "total_in": total_in, "abs_in": abs_in}


def locate_nd(axes_pairs, incl: Sequence[bool], row: Sequence[float]):
    idx = []
    for pairs, inc, x in zip(axes_pairs, incl, row):
        i = locate(pairs, x, inc)
        if i is None or i < 0 or i >= len(pairs):
            return None
        idx.append(i)
    return tuple(idx)


def histnd(axes_pairs, incl, rows, weights=None):
    cells: Dict[Tuple[int, ...], Fraction] = {}
    cells2: Dict[Tuple[int, ...], Fraction] = {}
    missed = Fraction(0)
    total_in = Fraction(0)
    abs_in = 0.0
    for k, row in enumerate(rows):
        if any(isinstance(x, float) and math.isnan(x) for x in row):
            continue
        w = Fraction(1) if weights is None else F(weights[k])
        total_in += w
        abs_in += abs(float(w))
        idx = locate_nd(axes_pairs, incl, row)
        if idx is None:
            missed += w
        else:
            cells[idx] = cells.get(idx, Fraction(0)) + w
            cells2[idx] = cells2.get(idx, Fraction(0)) + w * w
    return {"cells": cells, "cells2": cells2, "missed": missed, "total_in": total_in, "abs_in": abs_in}


def close(got, want: Fraction, tol: float) -> bool:
    """|got - want| <= tol, exactly when tol == 0."""
    g = float(got)
    if math.isnan(g):
        return False
    if tol == 0:
        return F(got) == want
    return abs(F(got) - want) <= Fraction(tol)
