"""Shared Hypothesis strategies.  Everything they produce is plain data."""
from __future__ import annotations

import math
from typing import List, Optional, Sequence, Tuple

from hypothesis import strategies as st

# ---------------------------------------------------------------------------------
# numbers


def dyadics(max_num: int = 1 << 10, max_exp: int = 3, min_num: int = 0):
    """k / 2^m : every partial sum of such numbers is exact in float64 (and float32
    for the magnitudes used here)."""
    return st.builds(lambda k, m: k / (1 << m), st.integers(min_num, max_num), st.integers(0, max_exp))


def nextafter(x: float, up: bool) -> float:
    return math.nextafter(x, math.inf if up else -math.inf)


# ---------------------------------------------------------------------------------
# edges / bins

_BASE_SCALE = [
    (0.0, 1.0), (0.0, 1e-3), (0.0, 1e3), (1.0, 1.0), (-1.0, 0.5), (-3.25, 1.0), (10.0, 3.0),
    (1e3, 1.0), (-1e3, 10.0), (1e6, 1.0), (1e6, 1e3), (1e-3, 1e-4), (1e-6, 1e-6), (-1e9, 1e6),
    (123.456, 0.1), (-0.7, 0.01), (1e9, 1e3), (5e-324, 1e-300),
]


@st.composite
def edges_float(draw, min_bins=1, max_bins=12):
    base, scale = draw(st.sampled_from(_BASE_SCALE))
    n = draw(st.integers(min_bins, max_bins))
    widths = draw(st.lists(st.floats(0.01, 10.0, allow_nan=False), min_size=n, max_size=n))
    out = [base]
    for w in widths:
        nxt = out[-1] + w * scale
        if not nxt > out[-1]:
            nxt = nextafter(out[-1], True)
        out.append(nxt)
    return out


@st.composite
def edges_decimal(draw, min_bins=1, max_bins=12):
    w = draw(st.sampled_from([0.1, 0.2, 0.25, 0.3, 0.5, 0.7, 1.0, 2.0, 2.5, 10.0, 0.01]))
    k0 = draw(st.integers(-60, 60))
    n = draw(st.integers(min_bins, max_bins))
    steps = draw(st.lists(st.integers(1, 3), min_size=n, max_size=n)) if draw(st.booleans()) else [1] * n
    ks = [k0]
    for s in steps:
        ks.append(ks[-1] + s)
    out = [round(k * w, 6) for k in ks]
    return out


@st.composite
def edges_int(draw, min_bins=1, max_bins=12):
    n = draw(st.integers(min_bins, max_bins))
    vals = draw(st.lists(st.integers(-40, 40), min_size=n + 1, max_size=n + 1, unique=True))
    return [float(v) for v in sorted(vals)]


@st.composite
def edges_dyadic(draw, min_bins=1, max_bins=12):
    n = draw(st.integers(min_bins, max_bins))
    m = draw(st.integers(0, 4))
    vals = draw(st.lists(st.integers(-200, 200), min_size=n + 1, max_size=n + 1, unique=True))
    return [v / (1 << m) for v in sorted(vals)]


def edges(min_bins=1, max_bins=12):
    """Strictly rising list of floats (n_bins + 1 entries)."""
    return st.one_of(
        edges_float(min_bins, max_bins),
        edges_decimal(min_bins, max_bins),
        edges_int(min_bins, max_bins),
        edges_dyadic(min_bins, max_bins),
    )


def clear_gap(r0: float, l1: float) -> bool:
    """A gap physt cannot mistake for 'consecutive' (its allclose tolerance is
    1e-8 + 1e-5*|edge|); we stay a factor 1000 away from that band."""
    return (l1 - r0) >= 1000 * (1e-8 + 1e-5 * max(abs(r0), abs(l1)))


@st.composite
def pairs(draw, min_bins=1, max_bins=12, gapped: Optional[bool] = None, narrow: bool = False):
    """List of [left, right] pairs; consecutive or with *clear* gaps.

    narrow=True additionally allows real gaps that are narrower than physt's allclose
    tolerance (for code paths that compare edges exactly, i.e. N-D axes)."""
    e = draw(edges(min_bins, max_bins))
    ps = [[a, b] for a, b in zip(e[:-1], e[1:])]
    want_gaps = draw(st.booleans()) if gapped is None else gapped
    if want_gaps and len(ps) >= 1:
        # two ways of making a gap: drop interior bins, shrink right edges
        keep = draw(st.lists(st.booleans(), min_size=len(ps), max_size=len(ps)))
        shr_opts = [1.0, 1.0, 0.5, 0.75, 0.25] + ([1 - 1e-7, 1 - 1e-12, 1 - 1e-4] if narrow else [])
        shr = draw(st.lists(st.sampled_from(shr_opts), min_size=len(ps), max_size=len(ps)))
        new = []
        for i, (p, k, s) in enumerate(zip(ps, keep, shr)):
            if not k and 0 < i < len(ps) - 1:
                continue
            l, r = p
            if s != 1.0 and i < len(ps) - 1:
                r2 = l + (r - l) * s
                if l < r2 < r:
                    r = r2
            new.append([l, r])
        if new:
            ps = new
        # repair gaps that sit inside physt's tolerance band: close them
        for i in range(len(ps) - 1):
            r0, l1 = ps[i][1], ps[i + 1][0]
            if l1 != r0 and not clear_gap(r0, l1) and not narrow:
                ps[i][1] = l1
    return ps


def is_gapped(ps) -> bool:
    return any(a[1] != b[0] for a, b in zip(ps[:-1], ps[1:]))


# ---------------------------------------------------------------------------------
# data relative to bins


def special_values(ps: Sequence[Sequence[float]]) -> List[float]:
    out = []
    first, last = ps[0][0], ps[-1][1]
    span = last - first
    for l, r in ps:
        out += [l, r, nextafter(l, True), nextafter(l, False), nextafter(r, True), nextafter(r, False), l + (r - l) / 2]
    for a, b in zip(ps[:-1], ps[1:]):
        if a[1] != b[0]:
            out.append(a[1] + (b[0] - a[1]) / 2)
    out += [first - span, last + span, first - 1000 * span, last + 1000 * span, first - abs(first) * 1e-15, 0.0]
    out += [last, last, first]  # the outer edges are where inclusion rules differ: sample them more often
    return [float(x) for x in out if math.isfinite(x)]


def values_for(ps, min_size=0, max_size=60, allow_nan=False):
    first, last = ps[0][0], ps[-1][1]
    span = last - first
    lo, hi = first - span, last + span
    elems = [st.sampled_from(special_values(ps))]
    if math.isfinite(lo) and math.isfinite(hi) and lo < hi:
        elems.append(st.floats(lo, hi, allow_nan=False))
        elems.append(st.floats(first, last, allow_nan=False))
    elems.append(st.integers(-50, 50).map(float))
    if allow_nan:
        elems.append(st.just(float("nan")))
    return st.lists(st.one_of(*elems), min_size=min_size, max_size=max_size)


def weights_for(n: int, kinds=("none", "int", "dyadic", "float")):
    """(kind, list|None)"""
    opts = []
    if "none" in kinds:
        opts.append(st.just(("none", None)))
    if "int" in kinds:
        opts.append(st.lists(st.integers(0, 7), min_size=n, max_size=n).map(lambda w: ("int", w)))
    if "dyadic" in kinds:
        opts.append(st.lists(dyadics(256, 3), min_size=n, max_size=n).map(lambda w: ("dyadic", w)))
    if "float" in kinds:
        opts.append(st.lists(st.floats(0.0, 1000.0, allow_nan=False), min_size=n, max_size=n).map(lambda w: ("float", w)))
    for _ in range(list(kinds).count("signed")):
        opts.append(st.lists(st.builds(lambda k, m: k / (1 << m), st.integers(-64, 256), st.integers(0, 2)), min_size=n, max_size=n).map(lambda w: ("signed", w)))
    return st.one_of(*opts)


names = st.one_of(st.none(), st.sampled_from(["x", "energy", "a b", "ř", ""]), st.text(max_size=6))
