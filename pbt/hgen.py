"""Plain-data histogram specifications, their Hypothesis strategies and builders.

A spec is a dict:
  {"axes": [axis...], "dtype": "int64"|..., "freq": nested list, "err2": nested list | None,
   "missed": [underflow, overflow, inner] (1-D) | [m] (N-D), "keep_missed": bool,
   "meta": {"name":..., "title":..., "axis_names": [...], ...custom}, "adaptive": bool}
axis = {"form": "edges"|"pairs"|"static"|"numpy"|"fixed"|"exp", "pairs": [[l, r], ...], "incl": bool, ...}
"""
from __future__ import annotations

import itertools
import math
from typing import Any, Dict, List, Optional, Sequence

import numpy as np
from hypothesis import strategies as st

from pbt import gen

INT_DTYPES = ["int16", "int32", "int64"]
FLOAT_DTYPES = ["float16", "float32", "float64"]
ALL_DTYPES = INT_DTYPES + FLOAT_DTYPES


def build_axis(ax):
    from physt.binnings import ExponentialBinning, FixedWidthBinning, NumpyBinning, StaticBinning

    form, ps = ax["form"], ax["pairs"]
    edt = ax.get("edge_dtype")  # edges handed over as an array of a narrow type (the values are representable in it)
    if form == "edges":
        return np.array([p[0] for p in ps] + [ps[-1][1]], dtype=edt)
    if form == "pairs":
        return np.array(ps, dtype=edt)
    if form == "static":
        return StaticBinning(np.array(ps, dtype=edt), includes_right_edge=ax.get("incl", True))
    if form == "numpy":
        return NumpyBinning(np.array([p[0] for p in ps] + [ps[-1][1]], dtype=edt), includes_right_edge=ax.get("incl", True))
    if form == "fixed":
        return FixedWidthBinning(bin_width=ax["w"], bin_count=ax["n"], bin_times_min=ax["k0"], bin_shift=ax.get("shift", 0.0),
                                 includes_right_edge=ax.get("incl", False) and not ax.get("adaptive", False),
                                 adaptive=ax.get("adaptive", False))
    if form == "exp":
        return ExponentialBinning(log_min=ax["log_min"], log_width=ax["log_width"], bin_count=ax["n"],
                                  includes_right_edge=ax.get("incl", True))
    raise AssertionError(form)


def fixed_pairs(w, n, k0, shift=0.0):
    return [[(k0 + i) * w + shift, (k0 + i + 1) * w + shift] for i in range(n)]


@st.composite
def axis(draw, min_bins=1, max_bins=6, forms=("edges", "pairs", "static", "numpy", "fixed", "exp"), gapped=None, adaptive=False, narrow=False):
    form = draw(st.sampled_from(list(forms))) if not adaptive else "fixed"
    ax: Dict[str, Any] = {"form": form}
    if form == "fixed":
        w = draw(st.sampled_from([0.25, 0.5, 1.0, 2.0, 0.1, 3.0, 2.5]))
        n = draw(st.integers(min_bins, max_bins))
        k0 = draw(st.integers(-8, 8))
        shift = draw(st.sampled_from([0.0, 0.0, 0.5])) * w
        ax.update(w=w, n=n, k0=k0, shift=shift, incl=False if adaptive else draw(st.booleans()), adaptive=adaptive)
        ax["pairs"] = fixed_pairs(w, n, k0, shift)
    elif form == "exp":
        n = draw(st.integers(min_bins, max_bins))
        log_min = draw(st.sampled_from([-2.0, 0.0, 0.5, 1.0]))
        log_width = draw(st.sampled_from([0.25, 0.5, 1.0]))
        ax.update(n=n, log_min=log_min, log_width=log_width, incl=draw(st.booleans()))
        e = (10.0 ** (log_min + np.arange(n + 1) * log_width)).tolist()
        ax["pairs"] = [[a, b] for a, b in zip(e[:-1], e[1:])]
    elif form in ("pairs", "static"):
        ax["pairs"] = draw(gen.pairs(min_bins, max_bins, gapped=gapped, narrow=narrow))
        ax["incl"] = draw(st.booleans()) if form == "static" else True
    else:
        ax["pairs"] = draw(gen.pairs(min_bins, max_bins, gapped=False))
        ax["incl"] = draw(st.booleans()) if form == "numpy" else True
    return ax


def content_values(dtype: str, allow_zero=True):
    lo = 0 if allow_zero else 1
    if dtype in INT_DTYPES:
        return st.integers(lo, 100)
    if dtype == "float16":
        return st.one_of(st.integers(lo, 64).map(float), gen.dyadics(128, 2, min_num=lo))
    return st.one_of(st.integers(lo, 100).map(float), gen.dyadics(512, 3, min_num=lo))


def nested(draw, shape, elem):
    if len(shape) == 1:
        return draw(st.lists(elem, min_size=shape[0], max_size=shape[0]))
    return [nested(draw, shape[1:], elem) for _ in range(shape[0])]


_META_VALUES = st.one_of(st.none(), st.integers(-5, 5), st.sampled_from(["v", "žluť", ""]), st.booleans(),
                         st.lists(st.integers(0, 3), max_size=3), st.dictionaries(st.sampled_from(["a", "b"]), st.integers(0, 3), max_size=2))


@st.composite
def meta(draw, ndim, rich=True):
    m: Dict[str, Any] = {}
    if draw(st.booleans()):
        m["name"] = draw(st.sampled_from(["h", "my hist", "ř", "n1"]))
    if draw(st.booleans()):
        m["title"] = draw(st.sampled_from(["T", "a title", ""]))
    if draw(st.booleans()):
        m["axis_names"] = [draw(st.sampled_from(["x", "y", "z", "t", "energy", "a b"])) + str(i) for i in range(ndim)]
    if rich and draw(st.booleans()):
        for k in draw(st.lists(st.sampled_from(["unit", "run", "tags", "cfg"]), max_size=2, unique=True)):
            m[k] = draw(_META_VALUES)
    return m


@st.composite
def hist_spec(draw, dims=(1, 2, 3), dtypes=ALL_DTYPES, max_bins=6, gapped=None, forms=("edges", "pairs", "static", "numpy", "fixed", "exp"),
              adaptive=None, with_missed=True, custom_err=True, nan_missed=False, keep_missed=None, rich_meta=True, allow_zero=True, near_err=False, narrow=False):
    d = draw(st.sampled_from(list(dims)))
    adp = draw(st.booleans()) if adaptive is None else adaptive
    mb = max_bins if d <= 2 else max(2, max_bins - 2)
    axes = [draw(axis(1, mb, forms=forms, gapped=(gapped if d == 1 else False) if gapped is not None else (None if d == 1 else draw(st.sampled_from([False, False, None]))), adaptive=adp, narrow=narrow)) for _ in range(d)]
    dtype = draw(st.sampled_from(list(dtypes)))
    shape = [len(ax["pairs"]) for ax in axes]
    elem = content_values(dtype, allow_zero)
    freq = nested(draw, shape, elem)
    err2 = nested(draw, shape, content_values(dtype)) if custom_err and draw(st.booleans()) else None
    if custom_err and near_err and dtype in ("float32", "float64") and draw(st.integers(0, 3)) == 0:
        # squared errors that are "allclose" to the contents without being equal
        rel = draw(st.sampled_from([2.0 ** -18, 2.0 ** -21, -(2.0 ** -19)]))

        def perturb(x):
            return [perturb(y) for y in x] if isinstance(x, list) else float(x) * (1 + rel) + draw(st.sampled_from([0.0, 0.0, 2.0 ** -30]))

        err2 = perturb(freq)
    km = draw(st.sampled_from([True, True, False])) if keep_missed is None else keep_missed
    isfloat = dtype in FLOAT_DTYPES
    mv = content_values(dtype)
    if nan_missed and isfloat:
        mv = st.one_of(mv, st.just(float("nan")))
    if not with_missed:
        missed = [0, 0, 0] if d == 1 else [0]
    elif d == 1:
        missed = [draw(mv), draw(mv), draw(mv)]
        if any(a[1] != b[0] for a, b in zip(axes[0]["pairs"][:-1], axes[0]["pairs"][1:])) and isfloat and draw(st.booleans()):
            missed[0] = missed[1] = float("nan")
    else:
        missed = [draw(content_values(dtype))]
    return {"axes": axes, "dtype": dtype, "freq": freq, "err2": err2, "missed": missed, "keep_missed": km,
            "meta": draw(meta(d, rich_meta)), "adaptive": adp}


CLASSES_BY_DIM = {
    1: ["Histogram1D", "RadialHistogram", "AzimuthalHistogram"],
    2: ["Histogram2D", "PolarHistogram", "SphericalSurfaceHistogram", "CylindricalSurfaceHistogram", "HistogramND"],
    3: ["HistogramND", "SphericalHistogram", "CylindricalHistogram"],
    4: ["HistogramND"],
}


def resolve_class(name):
    import physt.special_histograms as sh
    from physt.histogram1d import Histogram1D
    from physt.histogram_nd import Histogram2D, HistogramND

    return {"Histogram1D": Histogram1D, "Histogram2D": Histogram2D, "HistogramND": HistogramND}.get(name) or getattr(sh, name)


def build(spec):
    """Build the histogram through the public constructors."""
    from physt.histogram1d import Histogram1D
    from physt.histogram_nd import Histogram2D, HistogramND

    if spec.get("class"):
        return build_class(spec)

    d = len(spec["axes"])
    binnings = [build_axis(ax) for ax in spec["axes"]]
    dt = np.dtype(spec["dtype"])
    freq = np.array(spec["freq"], dtype=dt)
    kw: Dict[str, Any] = {"dtype": dt, "keep_missed": spec.get("keep_missed", True)}
    if spec.get("err2") is not None:
        kw["errors2"] = np.array(spec["err2"], dtype=dt)
    m = dict(spec.get("meta") or {})
    if d == 1:
        if "axis_names" in m:
            m["axis_name"] = m.pop("axis_names")[0]
        u, o, i = spec["missed"]
        return Histogram1D(binnings[0], freq, underflow=u, overflow=o, inner_missed=i, **kw, **m)
    if "axis_names" in m:
        m["axis_names"] = tuple(m["axis_names"])
    klass = Histogram2D if d == 2 else HistogramND
    return klass(binnings, freq, missed=spec["missed"][0], **kw, **m)


def flat(nested_list):
    out = []

    def rec(x):
        if isinstance(x, list):
            for y in x:
                rec(y)
        else:
            out.append(x)

    rec(nested_list)
    return out


def shape_of(spec):
    return tuple(len(ax["pairs"]) for ax in spec["axes"])


def is_gapped_spec(spec) -> bool:
    return any(gen.is_gapped(ax["pairs"]) for ax in spec["axes"])


def build_class(spec):
    """Like build(), for an explicitly named (possibly coordinate-transformed) class."""
    klass = resolve_class(spec["class"])
    d = len(spec["axes"])
    binnings = [build_axis(ax) for ax in spec["axes"]]
    dt = np.dtype(spec["dtype"])
    freq = np.array(spec["freq"], dtype=dt)
    kw: Dict[str, Any] = {"dtype": dt, "keep_missed": spec.get("keep_missed", True)}
    if spec.get("err2") is not None:
        kw["errors2"] = np.array(spec["err2"], dtype=dt)
    m = dict(spec.get("meta") or {})
    if d == 1:
        if "axis_names" in m:
            m["axis_name"] = m.pop("axis_names")[0]
        u, o, i = spec["missed"]
        return klass(binnings[0], freq, underflow=u, overflow=o, inner_missed=i, **kw, **m)
    if "axis_names" in m:
        m["axis_names"] = tuple(m["axis_names"])
    elif spec["class"] == "CylindricalSurfaceHistogram":
        m["axis_names"] = ("phi", "z")  # the class default names three axes for two dimensions
    if spec["class"] == "HistogramND":
        kw["dimension"] = d
    return klass(binnings, freq, missed=spec["missed"][0], **kw, **m)
