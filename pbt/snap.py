"""Public snapshots of histograms / binnings as plain data (NaN-aware comparison)."""
from __future__ import annotations

import math
from typing import Any, Dict

import numpy as np


def _f(x):
    try:
        return float(x)
    except Exception:
        return repr(x)


def binning_snapshot(b) -> Dict[str, Any]:
    return {
        "type": type(b).__name__,
        "bins": np.asarray(b.bins, dtype=float).tolist(),
        "adaptive": bool(b.is_adaptive()),
        "incl": bool(b.includes_right_edge),
    }


def snapshot(h, *, stats: bool = True, meta: bool = True) -> Dict[str, Any]:
    """Everything a histogram reports through its public attributes."""
    if not all(hasattr(h, a) for a in ("binnings", "frequencies", "errors2", "ndim", "dtype")):
        from pbt.core import Violation

        raise Violation("not_a_histogram", f"a histogram was expected here, got {type(h).__name__}: {repr(h)[:120]}")
    s: Dict[str, Any] = {
        "class": type(h).__name__,
        "ndim": h.ndim,
        "binnings": [binning_snapshot(b) for b in h.binnings],
        "dtype": str(h.dtype),
        "freq_dtype": str(h.frequencies.dtype),
        "err_dtype": str(h.errors2.dtype),
        "frequencies": np.asarray(h.frequencies).tolist(),
        "errors2": np.asarray(h.errors2).tolist(),
        "keep_missed": bool(h.keep_missed),
    }
    if h.ndim == 1 and hasattr(h, "underflow"):
        s["missed"] = [_f(h.underflow), _f(h.overflow), _f(h.inner_missed)]
    else:
        s["missed"] = [_f(h.missed)]
    if meta:
        md = dict(h.meta_data)
        s["meta"] = {k: (list(v) if isinstance(v, tuple) else v) for k, v in md.items()}
        s["name"], s["title"], s["axis_names"] = h.name, h.title, list(h.axis_names)
    if stats and hasattr(h, "statistics"):
        st = h.statistics
        s["stats"] = [_f(st.sum), _f(st.sum2), _f(st.min), _f(st.max), _f(st.weight), _f(st.median)]
    return s


def same(a: Any, b: Any) -> bool:
    if isinstance(a, float) and isinstance(b, float):
        return a == b or (math.isnan(a) and math.isnan(b))
    if isinstance(a, (list, tuple)) and isinstance(b, (list, tuple)):
        return len(a) == len(b) and all(same(x, y) for x, y in zip(a, b))
    if isinstance(a, dict) and isinstance(b, dict):
        return a.keys() == b.keys() and all(same(a[k], b[k]) for k in a)
    if isinstance(a, (int, float)) and isinstance(b, (int, float)) and not isinstance(a, bool) and not isinstance(b, bool):
        return float(a) == float(b) or (math.isnan(float(a)) and math.isnan(float(b)))
    return a == b


def snap_equal(a: Dict[str, Any], b: Dict[str, Any], ignore=()) -> bool:
    return all(same(a.get(k), b.get(k)) for k in set(a) | set(b) if k not in ignore)


def snap_diff(a: Dict[str, Any], b: Dict[str, Any], ignore=()) -> str:
    out = []
    for k in sorted(set(a) | set(b)):
        if k in ignore:
            continue
        if not same(a.get(k), b.get(k)):
            out.append(f"{k}: {str(a.get(k))[:120]} -> {str(b.get(k))[:120]}")
    return "; ".join(out)
