"""Runner: tiers, sharding, known findings, replays, evidence, exit codes.

    python -m pbt.runner C01 --tier quick
    python -m pbt.runner C01 --tier thorough
    python -m pbt.runner C01 --replay replays/C01/x.json

Exit codes: 0 = held on everything explored (KNOWN-FINDING lines allowed),
1 = at least one ``VIOLATION property=<id> replay=<path>`` line, 2 = harness error.
"""
from __future__ import annotations

import argparse
import glob
import importlib
import json
import os
import subprocess
import sys
import tempfile
import time
import traceback
import warnings
from typing import Any, Dict, List, Optional

VERIF = os.path.dirname(os.path.dirname(os.path.abspath(__file__)))
sys.path.insert(0, VERIF) if VERIF not in sys.path else None

from pbt.core import (  # noqa: E402
    Ctx,
    Finding,
    HarnessError,
    Sub,
    Violation,
    canon,
    derive_seed,
    digest,
    dump_case,
    innermost_physt_frame,
    load_case,
)

QUICK_SHARDS = int(os.environ.get("PBT_QUICK_SHARDS", "4"))
THOROUGH_SHARDS = int(os.environ.get("PBT_THOROUGH_SHARDS", "16"))
MAX_ROUNDS = {"quick": 3, "thorough": 6}
SHRINK_BUDGET_S = {"quick": 15.0, "thorough": 90.0}  # seconds of shrinking per failure (a bigger replay is still a replay)
WATCHDOG = {"quick": 900, "thorough": 4 * 3600}


def src_root() -> str:
    return os.path.realpath(os.environ.get("PBT_SRC", "/repo/src"))


def assert_physt_location() -> str:
    import physt

    where = os.path.realpath(physt.__file__)
    if not where.startswith(src_root() + os.sep):
        raise HarnessError(f"physt imported from {where}, expected under {src_root()}")
    return where


def load_module(pid: str):
    return importlib.import_module(f"pbt.props.{pid.lower()}")


def load_findings_file() -> Dict[str, Any]:
    path = os.path.join(VERIF, "known_findings.json")
    if not os.path.exists(path):
        return {"open": [], "fixed": []}
    with open(path, "r", encoding="utf-8") as f:
        return json.load(f)


# ----------------------------------------------------------------------------------
# running one case


def run_case(sub: Sub, case: Any):
    """Run one case. Returns (ctx, violation|None). Unexpected exceptions that do not
    come out of physt are harness errors."""
    ctx = Ctx()
    try:
        with warnings.catch_warnings():
            warnings.simplefilter("ignore")
            sub.check(case, ctx)
    except Violation as v:
        return ctx, v
    except HarnessError:
        raise
    except Exception as exc:  # noqa: BLE001
        frame = innermost_physt_frame(exc)
        if frame:
            return ctx, Violation(
                f"crash:{type(exc).__name__}", f"{type(exc).__name__}: {str(exc)[:200]}", frame
            )
        msg = str(exc)
        if isinstance(exc, AttributeError) and ("physt" in msg or any(n in msg for n in ("Histogram", "Binning", "Statistics", "Collection"))):
            # a public attribute / function of physt that the check reads is gone or of another kind
            return ctx, Violation("missing_api", f"AttributeError: {msg[:200]}", "")
        raise HarnessError(
            f"check {sub.name} crashed outside physt: {type(exc).__name__}: {exc}\n"
            + traceback.format_exc()
        ) from exc
    return ctx, None


def match_known(findings: List[Finding], active: List[str], sub: str, case: Any, v: Violation):
    for f in findings:
        if f.id in active:
            try:
                if f.match(sub, case, v):
                    return f.id
            except Exception:  # a predicate that cannot be evaluated does not match
                continue
    return None


# ----------------------------------------------------------------------------------
# shard worker


def run_shard(mod, pid: str, tier: str, seed: int, shard: int, nshards: int, active: List[str],
              only: Optional[List[str]], scale: float) -> Dict[str, Any]:
    import hypothesis
    from hypothesis import HealthCheck, Phase, given, settings

    findings: List[Finding] = getattr(mod, "FINDINGS", [])
    out: Dict[str, Any] = {"subs": {}, "violations": [], "harness_errors": []}
    for sub in mod.SUBS:
        if only and sub.name not in only:
            continue
        total = sub.quick if tier == "quick" else sub.thorough * nshards
        n = max(1, int(total * scale) // nshards)
        st: Dict[str, Any] = {
            "evaluations": 0,
            "nt": set(),
            "labels": {},
            "excluded": {},
            "suppressed": 0,
            "samples": [],
            "nt_samples": 0,
        }
        session_excluded: set = set()
        remaining = n
        t0 = time.time()
        for round_ in range(MAX_ROUNDS[tier]):
            if remaining <= 0:
                break
            last: Dict[str, Any] = {}
            before = st["evaluations"]

            def body(case):
                _st, _last, _sub, _sx = st, last, sub, session_excluded
                if "t0" in _last and time.time() - _last["t0"] > SHRINK_BUDGET_S[tier]:
                    # shrinking has had its time: let Hypothesis wind down (it then reports the run as flaky, and the
                    # smallest failing case recorded so far is the one that is written out)
                    return
                _st["evaluations"] += 1
                ctx, v = run_case(_sub, case)
                for lab in ctx.labels:
                    _st["labels"][lab] = _st["labels"].get(lab, 0) + 1
                if ctx.nontrivial:
                    _st["nt"].add(digest(case))
                    if _st["nt_samples"] < 3:
                        _st["nt_samples"] += 1
                        _st["samples"].append({"sub": _sub.name, "nontrivial": True, "case": case})
                elif len(_st["samples"]) - _st["nt_samples"] < 1:
                    _st["samples"].append({"sub": _sub.name, "nontrivial": False, "case": case})
                if v is None:
                    return
                fid = match_known(findings, active, _sub.name, case, v)
                if fid:
                    _st["excluded"][fid] = _st["excluded"].get(fid, 0) + 1
                    return
                if v.bucket(_sub.name) in _sx:
                    _st["suppressed"] += 1
                    return
                _last["case"] = case
                _last["v"] = v
                _last.setdefault("t0", time.time())
                raise v

            test = given(sub.strategy(tier))(body)
            test = hypothesis.seed(derive_seed(seed, sub.name, shard, round_))(test)
            test = settings(
                max_examples=remaining,
                database=None,
                deadline=None,
                derandomize=False,
                report_multiple_bugs=False,
                print_blob=False,
                suppress_health_check=[
                    HealthCheck.too_slow,
                    HealthCheck.data_too_large,
                    HealthCheck.large_base_example,
                ],
                phases=[Phase.generate, Phase.shrink],
            )(test)
            try:
                test()
                break
            except Violation:
                pass
            except HarnessError as he:
                out["harness_errors"].append(f"{sub.name}: {he}")
                break
            except Exception as exc:  # hypothesis health checks, flakiness, ...
                name = type(exc).__name__
                if "v" in last and ("Flaky" in name):
                    pass  # report the recorded failure below
                else:
                    out["harness_errors"].append(
                        f"{sub.name}: {name}: {str(exc)[:400]}"
                    )
                    break
            v: Violation = last["v"]
            out["violations"].append(
                {
                    "sub": sub.name,
                    "kind": v.kind,
                    "detail": v.detail,
                    "frame": v.frame,
                    "bucket": v.bucket(sub.name),
                    "case": last["case"],
                }
            )
            session_excluded.add(v.bucket(sub.name))
            remaining -= st["evaluations"] - before
        st["nt"] = sorted(st["nt"])
        st["wall_s"] = round(time.time() - t0, 2)
        out["subs"][sub.name] = st
    return out


# ----------------------------------------------------------------------------------
# replays


def run_replays(mod, pid: str, ffile: Dict[str, Any], lines: List[str]):
    """Run committed replays: regression cases (must pass) and witnesses of open
    findings (must still fail as recorded). Returns (active_finding_ids, violations, n)."""
    findings: List[Finding] = getattr(mod, "FINDINGS", [])
    by_id = {f.id: f for f in findings}
    subs = {s.name: s for s in mod.SUBS}
    open_here = [e for e in ffile.get("open", []) if e.get("property") == pid]
    active: List[str] = []
    violations = []
    n = 0
    for entry in open_here:
        fid = entry["id"]
        if fid not in by_id:
            raise HarnessError(f"known_findings.json lists {fid} for {pid} but the check has no signature for it")
        wpath = os.path.join(VERIF, entry["witness"])
        payload = load_case(wpath)
        sub = subs[payload["sub"]]
        n += 1
        ctx, v = run_case(sub, payload["case"])
        if v is None:
            lines.append(f"NOTE: property={pid} finding {fid} no longer reproduces on its witness; its exclusion is off for this run")
            continue
        if by_id[fid].match(sub.name, payload["case"], v):
            active.append(fid)
            lines.append(f"KNOWN-FINDING: property={pid} {fid} {entry.get('what', '')} [witness {entry['witness']}: {v.kind}]")
        else:
            violations.append({"sub": sub.name, "kind": v.kind, "detail": v.detail, "frame": v.frame,
                               "bucket": v.bucket(sub.name), "case": payload["case"], "replay": entry["witness"]})
    for path in sorted(glob.glob(os.path.join(VERIF, "replays", pid, "*.json"))):
        rel = os.path.relpath(path, VERIF)
        payload = load_case(path)
        if payload.get("expect", "pass") != "pass":
            continue
        sub = subs.get(payload["sub"])
        if sub is None:
            raise HarnessError(f"{rel}: unknown sub-check {payload['sub']}")
        n += 1
        ctx, v = run_case(sub, payload["case"])
        if v is None:
            continue
        fid = match_known(findings, active, sub.name, payload["case"], v)
        if fid:
            continue
        violations.append({"sub": sub.name, "kind": v.kind, "detail": v.detail, "frame": v.frame,
                           "bucket": v.bucket(sub.name), "case": payload["case"], "replay": rel})
    return active, violations, n


# ----------------------------------------------------------------------------------
# main


def _start_cover():
    """Diagnostic only (tools/coverage_report.py): with PBT_COVER=<dir> a worker records which lines of physt it
    executed (sys.monitoring, every line reported once).  Never used by a registered command."""
    out = os.environ.get("PBT_COVER")
    if not out or not hasattr(sys, "monitoring"):
        return None
    mon = sys.monitoring
    root = os.path.join(src_root(), "physt")
    hit = set()

    def on_line(code, line):
        if code.co_filename.startswith(root):
            hit.add((code.co_filename[len(root) + 1:], line))
        return mon.DISABLE

    mon.use_tool_id(mon.COVERAGE_ID, "pbt")
    mon.register_callback(mon.COVERAGE_ID, mon.events.LINE, on_line)
    mon.set_events(mon.COVERAGE_ID, mon.events.LINE)
    return out, hit


def _stop_cover(cover, tag):
    if not cover:
        return
    out, hit = cover
    os.makedirs(out, exist_ok=True)
    with open(os.path.join(out, tag + ".json"), "w", encoding="utf-8") as f:
        json.dump(sorted(hit), f)


def main(argv=None) -> int:
    ap = argparse.ArgumentParser()
    ap.add_argument("pid")
    ap.add_argument("--tier", default=os.environ.get("VERIF_TIER") or "quick", choices=["quick", "thorough"])
    ap.add_argument("--replay")
    ap.add_argument("--shard", type=int)
    ap.add_argument("--nshards", type=int)
    ap.add_argument("--partial")
    ap.add_argument("--active", default="")
    ap.add_argument("--subs", default="")
    ap.add_argument("--scale", type=float, default=float(os.environ.get("PBT_SCALE", "1")))
    ap.add_argument("--no-evidence", action="store_true")
    args = ap.parse_args(argv)
    pid = args.pid.upper()
    seed = int(os.environ.get("VERIF_SEED", "1") or "1")
    only = [s for s in args.subs.split(",") if s] or None

    try:
        assert_physt_location()
        mod = load_module(pid)
    except Exception as exc:  # noqa: BLE001
        print(f"HARNESS-ERROR property={pid} {type(exc).__name__}: {exc}")
        traceback.print_exc()
        return 2

    # ---- worker mode
    if args.shard is not None:
        cover = _start_cover()
        try:
            res = run_shard(mod, pid, args.tier, seed, args.shard, args.nshards,
                            [a for a in args.active.split(",") if a], only, args.scale)
        except Exception as exc:  # noqa: BLE001
            res = {"subs": {}, "violations": [], "harness_errors": [f"shard crashed: {type(exc).__name__}: {exc}\n{traceback.format_exc()}"]}
        with open(args.partial, "w", encoding="utf-8") as f:
            f.write(canon(res))
        _stop_cover(cover, f"{pid}-{args.shard}")
        return 0

    ffile = load_findings_file()
    lines: List[str] = []
    t0 = time.time()

    # ---- replay mode
    if args.replay:
        try:
            payload = load_case(args.replay if os.path.isabs(args.replay) else os.path.join(os.getcwd(), args.replay))
            subs = {s.name: s for s in mod.SUBS}
            sub = subs[payload["sub"]]
            active, _, _ = run_replays(mod, pid, ffile, [])
            ctx, v = run_case(sub, payload["case"])
        except HarnessError as he:
            print(f"HARNESS-ERROR property={pid} {he}")
            return 2
        if v is None:
            print(f"OK property={pid} replay={args.replay} holds")
            return 0
        fid = match_known(getattr(mod, "FINDINGS", []), active, sub.name, payload["case"], v)
        if fid:
            print(f"KNOWN-FINDING: property={pid} {fid} [{v.kind}] {v.detail[:200]}")
            return 0
        print(f"VIOLATION property={pid} replay={args.replay}")
        print(f"  sub={sub.name} kind={v.kind} frame={v.frame}\n  {v.detail[:600]}")
        return 1

    # ---- normal mode: replays, then sharded generated search
    try:
        active, violations, n_replays = run_replays(mod, pid, ffile, lines)
    except HarnessError as he:
        print(f"HARNESS-ERROR property={pid} {he}")
        return 2
    for ln in lines:
        print(ln)

    nshards = QUICK_SHARDS if args.tier == "quick" else THOROUGH_SHARDS
    tmp = tempfile.mkdtemp(prefix=f"pbt-{pid}-")
    procs = []
    try:
        for i in range(nshards):
            partial = os.path.join(tmp, f"{i}.json")
            cmd = [sys.executable, "-m", "pbt.runner", pid, "--tier", args.tier, "--shard", str(i),
                   "--nshards", str(nshards), "--partial", partial, "--active", ",".join(active),
                   "--scale", str(args.scale)]
            if only:
                cmd += ["--subs", ",".join(only)]
            logf = open(os.path.join(tmp, f"{i}.log"), "w")
            procs.append((subprocess.Popen(cmd, cwd=VERIF, stdout=logf, stderr=subprocess.STDOUT), partial, logf))
        deadline = time.time() + WATCHDOG[args.tier]
        harness_errors: List[str] = []
        partials = []
        for p, partial, logf in procs:
            try:
                p.wait(timeout=max(1, deadline - time.time()))
            except subprocess.TimeoutExpired:
                p.kill()
                harness_errors.append("watchdog: shard exceeded the time budget (inconclusive)")
            logf.close()
            if os.path.exists(partial):
                with open(partial, "r", encoding="utf-8") as f:
                    partials.append(json.load(f))
            else:
                with open(logf.name, "r", encoding="utf-8", errors="replace") as f:
                    harness_errors.append(f"shard produced no result; log tail: {f.read()[-1500:]}")
    finally:
        for p, _, _ in procs:
            if p.poll() is None:
                p.kill()
        import shutil

        shutil.rmtree(tmp, ignore_errors=True)

    # ---- merge
    subs_out: Dict[str, Any] = {}
    classes: Dict[str, int] = {}
    excluded: Dict[str, int] = {}
    all_nt: set = set()
    samples: List[Any] = []
    evaluations = n_replays
    for part in partials:
        harness_errors.extend(part.get("harness_errors", []))
        violations.extend(part.get("violations", []))
        for name, st in part["subs"].items():
            o = subs_out.setdefault(name, {"evaluations": 0, "nt": set(), "excluded_known": {}, "suppressed_after_report": 0, "wall_s": 0.0})
            o["evaluations"] += st["evaluations"]
            o["nt"].update(st["nt"])
            o["suppressed_after_report"] += st.get("suppressed", 0)
            o["wall_s"] = max(o["wall_s"], st.get("wall_s", 0.0))
            evaluations += st["evaluations"]
            all_nt.update(f"{name}:{d}" for d in st["nt"])
            for k, c in st["labels"].items():
                classes[f"{name}.{k}"] = classes.get(f"{name}.{k}", 0) + c
            for k, c in st["excluded"].items():
                excluded[k] = excluded.get(k, 0) + c
                o["excluded_known"][k] = o["excluded_known"].get(k, 0) + c
            for s in st["samples"]:
                if sum(1 for x in samples if x["sub"] == name) < 2:
                    samples.append(s)
    for name, o in subs_out.items():
        o["distinct_nontrivial"] = len(o.pop("nt"))

    # ---- violations: dedupe by bucket, write replay files
    seen = set()
    vio_lines = []
    outdir = os.path.join(VERIF, "out", pid)
    for v in violations:
        if v["bucket"] in seen:
            continue
        seen.add(v["bucket"])
        if "replay" in v:
            path = v["replay"]
        else:
            path = os.path.join("out", pid, f"viol-{v['sub']}-{digest(v['case'])}.json")
            dump_case(os.path.join(VERIF, path), {"property": pid, "sub": v["sub"], "kind": v["kind"],
                                                  "detail": v["detail"], "frame": v["frame"], "case": v["case"], "expect": "pass"})
        vio_lines.append((path, v))

    wall = round(time.time() - t0, 2)
    if not args.no_evidence:
        ev = {
            "property_id": pid,
            "tier": args.tier,
            "seed": seed,
            "level": getattr(mod, "LEVEL", "exploration"),
            "coverage": {
                "evaluations": evaluations,
                "distinct_nontrivial": len(all_nt),
                "rule": getattr(mod, "RULE", ""),
                "samples": samples[:12],
                "subchecks": subs_out,
                "classes": dict(sorted(classes.items())),
                "excluded_known": excluded,
                "known_findings_active": active,
                "replays_run": n_replays,
                "shards": nshards,
                "source_root": src_root(),
            },
            "assumptions": getattr(mod, "ASSUMPTIONS", []),
            "wall_s": wall,
            "violations": len(vio_lines),
        }
        if harness_errors:
            ev["coverage"]["harness_errors"] = harness_errors[:5]
        os.makedirs(os.path.join(VERIF, "evidence"), exist_ok=True)
        with open(os.path.join(VERIF, "evidence", f"{pid}.json"), "w", encoding="utf-8") as f:
            f.write(json.dumps(json.loads(canon(ev)), indent=1, sort_keys=True))
            f.write("\n")

    for path, v in vio_lines:
        print(f"VIOLATION property={pid} replay={path}")
        print(f"  sub={v['sub']} kind={v['kind']} frame={v['frame']}\n  {v['detail'][:600]}")
    print(f"SUMMARY property={pid} tier={args.tier} seed={seed} evaluations={evaluations} "
          f"distinct_nontrivial={len(all_nt)} excluded_known={excluded} violations={len(vio_lines)} wall_s={wall}")
    if vio_lines:
        return 1
    if harness_errors:
        for he in harness_errors[:5]:
            print(f"HARNESS-ERROR property={pid} {he}")
        return 2
    return 0


if __name__ == "__main__":
    sys.exit(main())
