#!/bin/sh
# tools/prep_agent.sh C05 -> creates scratch worktree /tmp/wt_C05 and prompt /tmp/agent_prompt_C05.txt
i=$1
git -C /repo worktree add -q --detach /tmp/wt_$i HEAD || exit 1
/venv/bin/python - $i <<'PY'
import sys, json
i=sys.argv[1]
for l in open('/verif/properties.jsonl'):
    p=json.loads(l)
    if p['id']==i:
        txt=f"Title: {p['title']}\n\nStatement: {p['statement']}\n\nQuantified over: {p['quantifier']['text']}\n"
t=open('/verif/tools/agent_prompt.tmpl').read().replace('WT','/tmp/wt_'+i).replace('PROPTEXT',txt.strip())
open(f'/tmp/agent_prompt_{i}.txt','w').write(t)
PY
echo prepared $i
