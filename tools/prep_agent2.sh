#!/bin/sh
# round 2: tools/prep_agent2.sh C05 -> /tmp/wt2_C05, /tmp/agent2_prompt_C05.txt (lists the round-1 ideas to avoid)
i=$1
git -C /repo worktree add -q --detach /tmp/wt2_$i HEAD || exit 1
/venv/bin/python - $i <<'PY'
import sys, json, os
i=sys.argv[1]
for l in open('/verif/properties.jsonl'):
    p=json.loads(l)
    if p['id']==i:
        txt=f"Title: {p['title']}\n\nStatement: {p['statement']}\n\nQuantified over: {p['quantifier']['text']}\n"
t=open('/verif/tools/agent_prompt.tmpl').read().replace('WT','/tmp/wt2_'+i).replace('PROPTEXT',txt.strip())
known=[]
for v in ('a','b'):
    f=f'/verif/seeded/{i}-{v}/notes.md'
    if os.path.exists(f):
        known.append(' '.join(open(f).read().split())[:420])
t+="\n\nIMPORTANT - two seeded defects for this property already exist from an earlier round; yours must be DIFFERENT ideas (different root cause, different code path, different trigger), so do not reproduce these:\n"+"\n".join(f"- earlier idea {k+1}: {x}" for k,x in enumerate(known))+"\nAim for parts of the property's statement and quantifier that these two ideas do not touch (read the statement clause by clause and pick clauses not yet attacked).\n"
open(f'/tmp/agent2_prompt_{i}.txt','w').write(t)
PY
echo prepared round 2 $i
