#!/bin/sh
# round 3: tools/prep_agent3.sh C05 -> /tmp/wt3_C05, /tmp/agent3_prompt_C05.txt (lists the ideas of rounds 1 and 2 to avoid)
i=$1
git -C /repo worktree add -q --detach /tmp/wt3_$i HEAD || exit 1
/venv/bin/python - $i <<'PY'
import sys, json, os
i=sys.argv[1]
for l in open('/verif/properties.jsonl'):
    p=json.loads(l)
    if p['id']==i:
        txt=f"Title: {p['title']}\n\nStatement: {p['statement']}\n\nQuantified over: {p['quantifier']['text']}\n"
t=open('/verif/tools/agent_prompt.tmpl').read().replace('WT','/tmp/wt3_'+i).replace('PROPTEXT',txt.strip())
known=[]
for v in ('a','b','r2a','r2b'):
    f=f'/verif/seeded/{i}-{v}/notes.md'
    if os.path.exists(f):
        known.append(' '.join(open(f).read().split())[:330])
t+="\n\nIMPORTANT - four seeded defects for this property already exist from earlier rounds; yours must be DIFFERENT ideas (different root cause, different code path, different trigger), so do not reproduce these:\n"+"\n".join(f"- earlier idea {k+1}: {x}" for k,x in enumerate(known))+"\nAim for parts of the property's statement and quantifier that these ideas do not touch: read the statement clause by clause, list the clauses and the public entry points / argument forms / option combinations / dtypes / object states each clause covers, and pick ones not yet attacked. Defects that only show after a multi-step history, for a rarely used but documented argument form, or at a numeric boundary are the most valuable.\n"
open(f'/tmp/agent3_prompt_{i}.txt','w').write(t)
PY
echo prepared round 3 $i
