#!/bin/sh
# tools/rebase_patch.sh <patch>  — re-creates a patch against /repo's current sources (patch(1) with fuzz); keeps <patch>.base
p=$(realpath "$1")
t=$(mktemp -d /tmp/rebase-XXXX)
mkdir -p $t/a $t/b
cp -r /repo/src $t/a/src; cp -r /repo/src $t/b/src
find $t -name __pycache__ -prune -exec rm -rf {} \; 2>/dev/null
if patch -p1 -s -f --no-backup-if-mismatch --fuzz=3 -d $t/b -i "$p" </dev/null >/dev/null 2>&1; then
  (cd $t && diff -ruN a/src b/src | grep -v '^diff -ruN' | sed -E 's#^(---|\+\+\+) ([ab]/src/[^\t]*).*#\1 \2#') > $t/new.diff
  find $t/b -name '*.orig' -o -name '*.rej' | grep -q . && echo "LEFTOVER rej/orig for $p"
  if [ -s $t/new.diff ] && git -C /repo apply --check $t/new.diff 2>/dev/null && PYTHONPATH=$t/b/src /venv/bin/python -c "import physt, physt.plotting, physt.io" 2>/dev/null; then
    [ -f "$p.base" ] || cp "$p" "$p.base"
    cp $t/new.diff "$p"; echo "rebased $p"
  else echo "REBASE PRODUCED BAD DIFF $p"; fi
else echo "CANNOT APPLY $p"; fi
rm -rf $t
