#!/venv/bin/python
"""tools/mkmut.py <ID> <name> <file-under-/repo> <old> <new> [<file2> <old2> <new2> ...]
Writes mutants/<ID>/<name>.patch (unified diff, -p1 relative to the repository root)."""
import difflib, os, sys
pid, name = sys.argv[1], sys.argv[2]
rest = sys.argv[3:]
out = []
for i in range(0, len(rest), 3):
    rel, old, new = rest[i:i+3]
    src = open(os.path.join('/repo', rel)).read()
    if src.count(old) != 1:
        sys.exit(f"{rel}: pattern occurs {src.count(old)} times: {old!r}")
    dst = src.replace(old, new)
    out += list(difflib.unified_diff(src.splitlines(True), dst.splitlines(True), 'a/' + rel, 'b/' + rel))
d = os.path.join('/verif/mutants', pid)
os.makedirs(d, exist_ok=True)
open(os.path.join(d, name + '.patch'), 'w').write(''.join(out))
print('wrote', os.path.join(d, name + '.patch'))
