#!/bin/sh
# tools/prep_agent_n.sh <round> <ID> -> /tmp/wt<round>_<ID>, /tmp/agent<round>_prompt_<ID>.txt (lists the ideas of all earlier rounds to avoid)
r=$1; i=$2
git -C /repo worktree add -q --detach /tmp/wt${r}_$i HEAD || exit 1
/venv/bin/python - $r $i <<'PY'
import sys, json, os, glob
r, i = sys.argv[1], sys.argv[2]
for l in open('/verif/properties.jsonl'):
    p=json.loads(l)
    if p['id']==i:
        txt=f"Title: {p['title']}\n\nStatement: {p['statement']}\n\nQuantified over: {p['quantifier']['text']}\n"
wt=f'/tmp/wt{r}_{i}'
t=open('/verif/tools/agent_prompt.tmpl').read().replace('WT',wt).replace('PROPTEXT',txt.strip())
known=[]
for d in sorted(glob.glob(f'/verif/seeded/{i}-*')):
    f=os.path.join(d,'notes.md')
    if os.path.exists(f):
        known.append(' '.join(open(f).read().split())[:260])
t+=f"\n\nIMPORTANT - {len(known)} seeded defects for this property already exist from earlier rounds; yours must be DIFFERENT ideas (different root cause, different code path, different trigger), so do not reproduce these:\n"+"\n".join(f"- earlier idea {k+1}: {x}" for k,x in enumerate(known))+"\nAim for parts of the property's statement and quantifier that these ideas do not touch: read the statement clause by clause, list the clauses and the public entry points / argument forms / option combinations / dtypes / object states each clause covers, and pick ones not yet attacked. Defects that only show after a multi-step history, for a rarely used but documented argument form or default, or at a numeric boundary are the most valuable. Also report (separately, at the end of your final message, under the heading 'Side observations') anything in the UNMODIFIED sources that already seems to violate the property - with a minimal reproduction - but do not use it as one of your two changes.\n"
open(f'/tmp/agent{r}_prompt_{i}.txt','w').write(t)
PY
echo prepared round $r $i
