#!/bin/sh
# tools/check_demo.sh <seed id>…  — demo.py of a seeded change: exit 0 on /repo's sources, non-zero with the patch (scratch copy outside /repo and /verif)
for id in "$@"; do
  d=$(mktemp -d /tmp/demo-XXXX); cp -r /repo/src $d/src; find $d -name __pycache__ -prune -exec rm -rf {} \; 2>/dev/null
  (cd $d && PYTHONPATH=$d/src /venv/bin/python /verif/seeded/$id/demo.py >/dev/null 2>&1); a=$?
  (cd $d && patch -p1 -s --no-backup-if-mismatch -i /verif/seeded/$id/patch.diff >/dev/null 2>&1) || echo "$id: PATCH FAILED"
  (cd $d && PYTHONPATH=$d/src /venv/bin/python /verif/seeded/$id/demo.py >/dev/null 2>&1); b=$?
  echo "$id: demo without change exit=$a, with change exit=$b"
  rm -rf $d
done
