#!/bin/sh
# tools/run_all.sh "<seeds>" [tier]   — every registered check at each seed; prints non-zero exits
cd "$(dirname "$0")/.."
seeds="${1:-1}"
tier="${2:-quick}"
fail=0
for s in $seeds; do
  for i in 01 02 03 04 05 06 07 08 09 10 11 12 13 14 15 16 17 18 19 20; do
    out=$(VERIF_SEED=$s ./check C$i --tier $tier --no-evidence 2>&1)
    rc=$?
    echo "$out" | grep SUMMARY
    if [ $rc -ne 0 ]; then fail=1; echo "!! C$i seed=$s exit=$rc"; echo "$out" | grep -v KNOWN | tail -6; fi
  done
done
echo "run_all done fail=$fail"
exit $fail
