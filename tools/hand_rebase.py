#!/venv/bin/python
"""tools/hand_rebase.py <patch file to (re)write> <file under src/physt> <old> <new> [<file> <old> <new> ...]
Re-creates a patch against /repo's current sources from explicit replacements (each <old> must occur exactly once);
keeps the previous patch as <patch>.base / patch.base.diff, verifies that it applies and that the package imports."""
import os, shutil, subprocess, sys, tempfile
target = os.path.abspath(sys.argv[1]); rest = sys.argv[2:]
tmp = tempfile.mkdtemp(prefix="hr-")
try:
    for side in "ab":
        shutil.copytree("/repo/src", os.path.join(tmp, side, "src"), ignore=shutil.ignore_patterns("__pycache__"))
    for i in range(0, len(rest), 3):
        rel, old, new = rest[i:i + 3]
        p = os.path.join(tmp, "b", "src", "physt", rel)
        s = open(p).read()
        if s.count(old) != 1:
            sys.exit(f"{rel}: pattern occurs {s.count(old)} times: {old[:80]!r}")
        open(p, "w").write(s.replace(old, new))
    r = subprocess.run("diff -ruN a/src b/src | grep -v '^diff -ruN' | sed -E 's#^(---|\\+\\+\\+) ([ab]/src/[^\\t]*).*#\\1 \\2#'", shell=True, cwd=tmp, capture_output=True, text=True)
    new_diff = r.stdout
    open(os.path.join(tmp, "new.diff"), "w").write(new_diff)
    if subprocess.run(["git", "-C", "/repo", "apply", "--check", os.path.join(tmp, "new.diff")]).returncode != 0:
        sys.exit("new diff does not apply")
    imp = subprocess.run(["/venv/bin/python", "-c", "import physt, physt.plotting, physt.io"], env=dict(os.environ, PYTHONPATH=os.path.join(tmp, "b", "src")), cwd=tmp, capture_output=True, text=True)
    if imp.returncode != 0:
        sys.exit("patched package does not import: " + imp.stderr[-200:])
    base = target[:-5] + ".base.diff" if target.endswith("patch.diff") else target + ".base"
    if os.path.exists(target) and not os.path.exists(base):
        shutil.copy(target, base)
    open(target, "w").write(new_diff)
    print("rewrote", target)
finally:
    shutil.rmtree(tmp, ignore_errors=True)
