#!/venv/bin/python
"""tools/check_patches.py — every seeded change and mutant must apply to /repo's current sources (scratch copy)
and leave an importable package; prints the ones that do not (16 at a time)."""
import glob, json, os, shutil, subprocess, sys, tempfile
from multiprocessing.pool import ThreadPool

patches = sorted(glob.glob("/verif/mutants/*/*.patch"))
for meta in sorted(glob.glob("/verif/seeded/*/meta.json")):
    if not json.load(open(meta)).get("obsolete"):
        patches.append(os.path.join(os.path.dirname(meta), "patch.diff"))


def one(p):
    tmp = tempfile.mkdtemp(prefix="chkpatch-")
    try:
        shutil.copytree("/repo/src", os.path.join(tmp, "src"), ignore=shutil.ignore_patterns("__pycache__"))
        r = subprocess.run(["patch", "-p1", "-s", "-f", "--no-backup-if-mismatch", "-i", p], cwd=tmp, capture_output=True, text=True, stdin=subprocess.DEVNULL, timeout=60)
        if r.returncode != 0:
            return f"DOES NOT APPLY {p}"
        r = subprocess.run(["/venv/bin/python", "-c", "import physt, physt.plotting, physt.io, physt.compat.pandas, physt.compat.polars, physt.compat.dask, physt.compat.geant4"],
                           env=dict(os.environ, PYTHONPATH=os.path.join(tmp, "src")), cwd=tmp, capture_output=True, text=True, stdin=subprocess.DEVNULL, timeout=300)
        if r.returncode != 0:
            return f"DOES NOT IMPORT {p} " + r.stderr.strip().splitlines()[-1][:120]
    except subprocess.TimeoutExpired:
        return f"TIMED OUT {p}"
    finally:
        shutil.rmtree(tmp, ignore_errors=True)
    return None


with ThreadPool(16) as pool:
    results = [r for r in pool.map(one, patches) if r]
for r in results:
    print(r)
print(f"{len(patches)} patches checked, {len(results)} bad")
sys.exit(1 if results else 0)
