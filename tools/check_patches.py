#!/venv/bin/python
"""tools/check_patches.py — every seeded change and mutant must apply to /repo's current sources (scratch copy)
and leave an importable package; prints the ones that do not."""
import glob, json, os, shutil, subprocess, sys, tempfile
bad = 0
patches = sorted(glob.glob("/verif/mutants/*/*.patch"))
for meta in sorted(glob.glob("/verif/seeded/*/meta.json")):
    if not json.load(open(meta)).get("obsolete"):
        patches.append(os.path.join(os.path.dirname(meta), "patch.diff"))
for p in patches:
    tmp = tempfile.mkdtemp(prefix="chkpatch-")
    try:
        shutil.copytree("/repo/src", os.path.join(tmp, "src"), ignore=shutil.ignore_patterns("__pycache__"))
        r = subprocess.run(["patch", "-p1", "-s", "--no-backup-if-mismatch", "-i", p], cwd=tmp, capture_output=True, text=True)
        if r.returncode != 0:
            print("DOES NOT APPLY", p); bad += 1; continue
        r = subprocess.run(["/venv/bin/python", "-c", "import physt, physt.plotting, physt.io, physt.compat.pandas, physt.compat.polars, physt.compat.dask, physt.compat.geant4"],
                           env=dict(os.environ, PYTHONPATH=os.path.join(tmp, "src")), cwd=tmp, capture_output=True, text=True)
        if r.returncode != 0:
            print("DOES NOT IMPORT", p, r.stderr.strip().splitlines()[-1][:120]); bad += 1
    finally:
        shutil.rmtree(tmp, ignore_errors=True)
print(f"{len(patches)} patches checked, {bad} bad")
sys.exit(1 if bad else 0)
