#!/venv/bin/python
"""tools/mutants_vs_suite.py — for every mutants/<ID>/*.patch: does the repository's own test
suite stay green with it?  (A mutant the suite already kills proves nothing about reach beyond
the suite.)  Works on scratch copies of /repo under the system temp directory; writes
mutants/SUITE.md.  Developer tooling, not a registered command."""
import glob, os, shutil, subprocess, sys, tempfile
from concurrent.futures import ThreadPoolExecutor

patches = sorted(glob.glob("/verif/mutants/*/*.patch"))

def work(p):
    tmp = tempfile.mkdtemp(prefix="pbt-suite-")
    try:
        for d in ("src", "tests"):
            shutil.copytree(f"/repo/{d}", f"{tmp}/{d}", ignore=shutil.ignore_patterns("__pycache__"))
        for f in ("pyproject.toml", "tox.ini"):
            if os.path.exists(f"/repo/{f}"):
                shutil.copy(f"/repo/{f}", tmp)
        r = subprocess.run(["patch", "-p1", "-s", "-d", tmp, "-i", p], capture_output=True, text=True)
        if r.returncode:
            return p, "PATCH-FAILED"
        env = dict(os.environ, PYTHONPATH=f"{tmp}/src", MPLBACKEND="Agg")
        env.pop("PHYST_FREE_ARITHMETICS", None)
        res = "?"
        for attempt in range(2):
            r = subprocess.run(["/venv/bin/python", "-m", "pytest", "-q", "-x", "-p", "no:cacheprovider", "--timeout=900", "tests"], capture_output=True, text=True, env=env, cwd=tmp)
            tail = r.stdout.strip().splitlines()[-1] if r.stdout.strip() else "?"
            res = "green" if r.returncode == 0 else "KILLED-BY-SUITE: " + " ".join(l for l in r.stdout.splitlines() if l.startswith("FAILED"))[:160]
            if r.returncode == 0 or "test_increases_total_by_zero_or_weight" not in r.stdout:
                break
        return p, res
    finally:
        shutil.rmtree(tmp, ignore_errors=True)

with ThreadPoolExecutor(8) as ex:
    out = list(ex.map(work, patches))
lines = ["# Own mutants vs. the repository's test suite", "", "| mutant | suite |", "|---|---|"]
for p, res in out:
    lines.append(f"| {os.path.relpath(p, '/verif/mutants')} | {res} |")
killed = sum(1 for _, r in out if r.startswith("KILLED"))
lines += ["", f"{len(out) - killed}/{len(out)} mutants leave the suite green; {killed} are killed by it."]
open("/verif/mutants/SUITE.md", "w").write("\n".join(lines) + "\n")
print(lines[-1])
