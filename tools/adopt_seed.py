#!/venv/bin/python
"""tools/adopt_seed.py <worktree> <variant dir, e.g. seed_out/a> <seed id> <property> [<extra checks to run, e.g. C03,C12>]

Confirms a sub-agent's seeded change independently in the scratch worktree (demo passes
without the change, fails with it, the repository's test suite stays green with it),
stores it under /verif/seeded/<seed id>/ and runs the registered quick check(s) against
it (scratch copy of /repo/src + patch; /repo itself is never modified)."""
import json
import os
import shutil
import subprocess
import sys
import time

wt, var, sid, prop = sys.argv[1:5]
extra = sys.argv[5].split(",") if len(sys.argv) > 5 else []
src = os.path.join(wt, var)
env = dict(os.environ, PYTHONPATH=os.path.join(wt, "src"))
env.pop("PHYST_FREE_ARITHMETICS", None)


def sh(cmd, **kw):
    return subprocess.run(cmd, shell=True, capture_output=True, text=True, **kw)


ran = []
r = sh(f"git -C {wt} checkout -- src && git -C {wt} status --short -- src")
assert r.stdout.strip() == "", r.stdout
r0 = sh(f"/venv/bin/python {src}/demo.py", env=env, cwd="/tmp")
ran.append(f"demo without change: exit {r0.returncode}")
r = sh(f"git -C {wt} apply {src}/patch.diff")
assert r.returncode == 0, r.stderr
r1 = sh(f"/venv/bin/python {src}/demo.py", env=env, cwd="/tmp")
ran.append(f"demo with change: exit {r1.returncode}")
t0 = time.time()
for attempt in range(2):
    sh(f"rm -rf {wt}/.hypothesis")
    rt = sh("/venv/bin/python -m pytest -q -p no:cacheprovider --timeout=900 tests 2>&1 | tail -4", env=env, cwd=wt)
    suite = rt.stdout.strip().splitlines()[-1] if rt.stdout.strip() else "?"
    # tests/test_histogram1d.py::TestFillN::test_increases_total_by_zero_or_weight is a randomised
    # test that fails now and then on the unchanged tree as well (float rounding of total): retry once
    if " failed" not in suite or "test_increases_total_by_zero_or_weight" not in rt.stdout:
        break
ran.append(f"pytest with change: {suite} ({time.time() - t0:.0f}s)")
sh(f"git -C {wt} checkout -- src")
ok = r0.returncode == 0 and r1.returncode != 0 and " passed" in suite and " failed" not in suite
print("\n".join(ran))
if not ok:
    print("NOT CONFIRMED", rt.stdout[-800:], r0.stdout[-500:], r0.stderr[-500:])
    sys.exit(1)
dst = f"/verif/seeded/{sid}"
os.makedirs(dst, exist_ok=True)
for f in ("patch.diff", "demo.py", "notes.md"):
    if os.path.exists(os.path.join(src, f)):
        shutil.copy(os.path.join(src, f), dst)
# does the patch still apply to /repo's current tree?
r = sh(f"git -C /repo apply --check {dst}/patch.diff")
applies = r.returncode == 0
ran.append(f"git -C /repo apply --check: {'ok' if applies else 'CONFLICT ' + r.stderr[:200]}")
results = {}
sys.path.insert(0, "/verif")
from pbt.selftest import run_one  # noqa: E402

if applies:
    for pid in [prop] + extra:
        status, out, dt = run_one(pid, f"{dst}/patch.diff")
        vio = [ln.strip() for ln in out.splitlines() if ln.startswith("  sub=")]
        results[pid] = {"status": status, "wall_s": round(dt, 1), "first_violation": vio[0] if vio else ""}
        ran.append(f"./check {pid} --tier quick against /repo/src + patch: {status} {vio[0] if vio else ''}")
        print(ran[-1])
notes = open(os.path.join(dst, "notes.md")).read() if os.path.exists(os.path.join(dst, "notes.md")) else ""
meta = {
    "id": sid,
    "property": prop,
    "origin": "fresh sub-agent given only the property text and a scratch worktree",
    "needs_to_manifest": notes.strip()[:1500],
    "confirmed": ran,
    "check_results": results,
}
json.dump(meta, open(os.path.join(dst, "meta.json"), "w"), indent=1)
print("stored", dst)
