#!/venv/bin/python
"""Regenerates MANIFEST.json from the property modules that exist under pbt/props."""
import json
import os
import sys

VERIF = os.path.dirname(os.path.dirname(os.path.abspath(__file__)))
sys.path.insert(0, VERIF)
sys.path.insert(0, "/repo/src")

TEXT = {
    "C01": ("generated 1-D constructions against an exact (Fraction) per-bin reference", "4 C01"),
    "C02": ("generated N-D constructions against an exact per-cell reference + axis-permutation metamorphic relation", "4 C02"),
    "C03": ("generated fill/fill_n/construct histories against the exact model and against batch construction", "4 C03"),
    "C04": ("generated adaptive fill histories with a per-step invariant (no loss, grid, span, attachment)", "4 C04"),
    "C05": ("generated operand sets: h(A)+h(B) vs exact model of the union; commutativity/associativity/chunking", "4 C05"),
    "C06": ("generated histograms x scalars: exact linearity laws, normalisation, refusals", "4 C06"),
    "C07": ("generated data/arguments per binning factory: well-formedness, coverage, rule oracles, representation agreement", "4 C07"),
    "C08": ("generated histograms of every class: JSON round trip compared bit for bit, second serialisation, versions", "4 C08"),
    "C09": ("generated N-D histograms x axis subsets: marginals by explicit index loops", "4 C09"),
    "C10": ("generated histograms x amounts/axes: reference merge by explicit loops", "4 C10"),
    "C11": ("index-expression grammar applied to histogram and to plain lists", "4 C11"),
    "C12": ("generated derive/mutate histories over a pool with public snapshots of every object", "4 C12"),
    "C13": ("generated operation histories with a dtype/value model (numpy promotion, Fractions)", "4 C13"),
    "C14": ("generated entry histories with exact Fraction moments as reference", "4 C14"),
    "C15": ("generated points x transformed classes x entry paths vs math-library reference transforms", "4 C15"),
    "C16": ("generated irregular histograms of every class vs closed-form bin measures", "4 C16"),
    "C17": ("differential: container input vs equivalent numpy array", "4 C17"),
    "C18": ("generated histories with injected invalid calls; snapshot-before/after oracle", "4 C18"),
    "C19": ("generated worker programs and schedules executed step by step (threads / asyncio) vs a per-context stack model", "4 C19"),
    "C20": ("generated histograms x plot kinds/options: artists/traces/stdout vs independently computed marks", "4 C20"),
}

BASELINE = ("cd /repo && env -u PHYST_VERIF /venv/bin/python -m pytest -ra -q -p no:cacheprovider --timeout=900 "
            "--continue-on-collection-errors")


def main():
    props = [json.loads(line) for line in open(os.path.join(VERIF, "properties.jsonl"))]
    checks, na = [], []
    for p in props:
        pid = p["id"]
        path = os.path.join(VERIF, "pbt", "props", pid.lower() + ".py")
        if not os.path.exists(path):
            na.append({"property_id": pid, "reason": "check not built yet in this session (planned: property-based, see DESIGN.md section 4)"})
            continue
        import importlib

        mod = importlib.import_module(f"pbt.props.{pid.lower()}")
        level = getattr(mod, "LEVEL", "exploration")
        tech, ref = TEXT[pid]
        checks.append({
            "property_id": pid,
            "quick_cmd": f"./check {pid} --tier quick",
            "thorough_cmd": f"./check {pid} --tier thorough",
            "evidence_file": f"evidence/{pid}.json",
            "replay_cmd_template": f"./check {pid} --replay {{path}}",
            "engine": "pbt",
            "level_claimed": {
                "category": level,
                "text": getattr(mod, "LEVEL_TEXT", "") or (
                    "Property-based exploration with Hypothesis: " + tech + ". Holds on every generated case of this run; "
                    "sensitivity is demonstrated on seeded mutants (DESIGN.md section 9). No claim of absence."),
                "design_ref": "DESIGN.md section " + ref,
            },
            "level_note": "; ".join(getattr(mod, "ASSUMPTIONS", [])) or "numpy and the Python float/Fraction arithmetic of the reference model are trusted",
            "technique": "property-based testing (Hypothesis): " + tech,
        })
    manifest = {
        "version": 1,
        "setup_cmd": "./check --setup",
        "hooks": {
            "guard": "PHYST_VERIF",
            "enable": "none needed: every observation point is public API; checks import /repo/src directly (PYTHONPATH) in fresh processes",
            "baseline_off_cmd": BASELINE,
            "source_commits": [],
            "add_only": True,
        },
        "engines": [{
            "name": "pbt",
            "path": "pbt/",
            "serves_properties": [c["property_id"] for c in checks],
            "kind_free_text": "Hypothesis 6.168 strategies drawing plain-data cases, interpreted against pure-Python reference models; sharded over processes; replay files bypass the library",
        }],
        "checks": checks,
        "notes": "Known findings: known_findings.json (open = recorded genuine defects with witness + signature; fixed = repaired by a 'fix:' commit in /repo). Exit 2 = harness error / inconclusive, never a violation.",
        "not_applicable": na,
    }
    with open(os.path.join(VERIF, "MANIFEST.json"), "w") as f:
        json.dump(manifest, f, indent=1)
        f.write("\n")
    print(f"MANIFEST.json: {len(checks)} checks, {len(na)} not applicable")


if __name__ == "__main__":
    main()
