import json, sys, glob
import jsonschema
m = json.load(open('/verif/MANIFEST.json'))
jsonschema.validate(m, json.load(open('/root/.vp/MANIFEST.schema.json')))
es = json.load(open('/root/.vp/EVIDENCE.schema.json'))
for f in sorted(glob.glob('/verif/evidence/*.json')):
    jsonschema.validate(json.load(open(f)), es)
print('manifest + %d evidence files valid' % len(glob.glob('/verif/evidence/*.json')))
