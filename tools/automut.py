#!/venv/bin/python
"""tools/automut.py [--per-file N] [--seed S] [--jobs J] [--files a.py,b.py]

Automatic sensitivity sweep (developer tooling, not a registered check): small syntactic mutants of
physt's sources (comparison / arithmetic / boolean operator swaps, negated conditions, off-by-one
constants, dropped statements) are applied one at a time to a scratch copy of /repo/src (outside /repo and
/verif); for each mutant the quick checks of the properties anchored in that file are run (reduced case
count) until one reports a VIOLATION.  Survivors are then run against the repository's own test suite.
The result is written to mutants/AUTOMUT.md: mutants that no check notices are the interesting rows -
either equivalent, or behaviour that no listed property pins down, or a blind spot of a check.
"""
import argparse
import ast
import copy
import json
import os
import random
import shutil
import subprocess
import sys
import tempfile
import time
from concurrent.futures import ThreadPoolExecutor

REPO_SRC = "/repo/src"
VERIF = "/verif"

FILE_PROPS = {
    "_construction.py": ["C01", "C02", "C17", "C03", "C07", "C04"],
    "_bin_utils.py": ["C07", "C01", "C04", "C10"],
    "binnings.py": ["C07", "C04", "C01", "C10", "C11", "C05", "C08", "C03"],
    "histogram_base.py": ["C05", "C06", "C13", "C18", "C12", "C10", "C09", "C03", "C08"],
    "histogram1d.py": ["C03", "C01", "C11", "C14", "C16", "C12", "C13", "C05"],
    "histogram_nd.py": ["C02", "C03", "C09", "C11", "C16", "C12", "C06"],
    "statistics.py": ["C14", "C06", "C05"],
    "special_histograms.py": ["C15", "C16", "C08"],
    "histogram_collection.py": ["C05", "C06", "C08", "C12"],
    "config.py": ["C19"],
    "_facade.py": ["C02", "C01", "C17", "C15"],
    "io/json.py": ["C08"],
    "io/util.py": ["C08"],
    "io/version.py": ["C08"],
    "compat/pandas.py": ["C17"],
    "compat/polars.py": ["C17"],
    "compat/dask.py": ["C17", "C05"],
    "compat/geant4.py": ["C17"],
    "compat/xarray.py": ["C17"],
    "plotting/common.py": ["C20"],
    "plotting/matplotlib.py": ["C20"],
    "plotting/plotly.py": ["C20"],
    "plotting/ascii.py": ["C20"],
}

CMP = {ast.Lt: ast.LtE, ast.LtE: ast.Lt, ast.Gt: ast.GtE, ast.GtE: ast.Gt, ast.Eq: ast.NotEq, ast.NotEq: ast.Eq,
       ast.Is: ast.IsNot, ast.IsNot: ast.Is, ast.In: ast.NotIn, ast.NotIn: ast.In}
BIN = {ast.Add: ast.Sub, ast.Sub: ast.Add, ast.Mult: ast.Div, ast.Div: ast.Mult, ast.FloorDiv: ast.Div, ast.Mod: ast.Mult}
BOOL = {ast.And: ast.Or, ast.Or: ast.And}


def sites(tree):
    """Yield (description, mutator) - mutator changes a deep copy of the tree in place given the node index."""
    out = []
    nodes = list(ast.walk(tree))
    for idx, node in enumerate(nodes):
        ln = getattr(node, "lineno", None)
        if isinstance(node, ast.Compare):
            for k, op in enumerate(node.ops):
                if type(op) in CMP:
                    out.append((idx, ln, f"compare[{k}] {type(op).__name__}->{CMP[type(op)].__name__}", ("cmp", k)))
        elif isinstance(node, ast.BinOp) and type(node.op) in BIN:
            out.append((idx, ln, f"binop {type(node.op).__name__}->{BIN[type(node.op)].__name__}", ("bin",)))
        elif isinstance(node, ast.BoolOp) and type(node.op) in BOOL:
            out.append((idx, ln, f"boolop {type(node.op).__name__}->{BOOL[type(node.op)].__name__}", ("bool",)))
        elif isinstance(node, ast.UnaryOp) and isinstance(node.op, ast.Not):
            out.append((idx, ln, "drop not", ("not",)))
        elif isinstance(node, (ast.If, ast.While)) and not isinstance(node.test, ast.Constant):
            out.append((idx, ln, "negate condition", ("neg",)))
        elif isinstance(node, ast.Constant) and isinstance(node.value, (int, float)) and not isinstance(node.value, bool) and abs(node.value) < 1000:
            out.append((idx, ln, f"constant {node.value!r}->{node.value + 1!r}", ("const",)))
        elif isinstance(node, ast.Constant) and isinstance(node.value, bool):
            out.append((idx, ln, f"constant {node.value}->{not node.value}", ("flip",)))
        elif isinstance(node, (ast.Assign, ast.AugAssign, ast.Expr)) and ln is not None and not (isinstance(node, ast.Expr) and isinstance(node.value, ast.Constant)):
            out.append((idx, ln, f"drop statement {type(node).__name__}", ("drop",)))
        elif isinstance(node, ast.Return) and node.value is not None and not isinstance(node.value, ast.Constant):
            pass
    return out


def in_docstring_or_typing(tree):
    """Line ranges to skip: TYPE_CHECKING blocks, overloads, __repr__ and deprecated shims."""
    skip = set()
    for node in ast.walk(tree):
        if isinstance(node, ast.If) and "TYPE_CHECKING" in ast.dump(node.test):
            skip.update(range(node.lineno, node.end_lineno + 1))
        if isinstance(node, (ast.FunctionDef, ast.AsyncFunctionDef)):
            decos = " ".join(ast.dump(d) for d in node.decorator_list)
            if "overload" in decos or node.name in ("__repr__", "__rich_repr__", "_repr_html_", "__str__"):
                skip.update(range(node.lineno, node.end_lineno + 1))
    return skip


def apply(tree, idx, how):
    t = copy.deepcopy(tree)
    nodes = list(ast.walk(t))
    node = nodes[idx]
    kind = how[0]
    if kind == "cmp":
        node.ops[how[1]] = CMP[type(node.ops[how[1]])]()
    elif kind == "bin":
        node.op = BIN[type(node.op)]()
    elif kind == "bool":
        node.op = BOOL[type(node.op)]()
    elif kind == "not":
        # replace `not x` by `x`: copy fields
        inner = node.operand
        node.__class__ = inner.__class__
        node.__dict__.update(inner.__dict__)
    elif kind == "neg":
        node.test = ast.UnaryOp(op=ast.Not(), operand=node.test)
    elif kind == "const":
        node.value = node.value + 1
    elif kind == "flip":
        node.value = not node.value
    elif kind == "drop":
        node.__class__ = ast.Pass
        for f in ("targets", "value", "target", "op", "type_comment"):
            node.__dict__.pop(f, None)
    ast.fix_missing_locations(t)
    return ast.unparse(t)


ALL_PROPS = [f"C{i:02d}" for i in range(1, 21)]


def run_checks(src_dir, props, scale, timeout, shards="2"):
    env = dict(os.environ, PBT_SRC=src_dir, VERIF_SEED=os.environ.get("VERIF_SEED", "1"), PBT_QUICK_SHARDS=shards)
    env.pop("PBT_COVER", None)
    for pid in props:
        try:
            r = subprocess.run([os.path.join(VERIF, "check"), pid, "--no-evidence", "--scale", str(scale)], cwd=VERIF, env=env,
                               capture_output=True, text=True, timeout=timeout)
        except subprocess.TimeoutExpired:
            return "TIMEOUT", pid, ""
        if r.returncode == 1 and "VIOLATION" in r.stdout:
            first = next((ln.strip() for ln in r.stdout.splitlines() if ln.startswith("  sub=")), "")
            return "CAUGHT", pid, first
        if r.returncode == 2:
            return "HARNESS", pid, (r.stdout + r.stderr)[-200:].replace("\n", " ")
    return "SURVIVED", "", ""


def run_suite(src_dir, timeout=900):
    wt = os.path.dirname(src_dir)
    env = dict(os.environ, PYTHONPATH=src_dir)
    try:
        r = subprocess.run(["/venv/bin/python", "-m", "pytest", "-q", "-p", "no:cacheprovider", "-x", "--timeout=600", os.path.join(wt, "tests")],
                           cwd=wt, env=env, capture_output=True, text=True, timeout=timeout)
    except subprocess.TimeoutExpired:
        return "SUITE-TIMEOUT"
    tail = [ln for ln in r.stdout.splitlines() if ln.strip()][-1:] or [""]
    return "SUITE-GREEN" if r.returncode == 0 else "SUITE-KILLS: " + tail[0][:100]


def work(job):
    rel, idx, ln, desc, how, text, props, scale = job
    tmp = tempfile.mkdtemp(prefix="automut-")
    try:
        shutil.copytree(REPO_SRC, os.path.join(tmp, "src"), ignore=shutil.ignore_patterns("__pycache__"))
        shutil.copytree("/repo/tests", os.path.join(tmp, "tests"), ignore=shutil.ignore_patterns("__pycache__"))
        for f in ("pyproject.toml", "setup.cfg", "pytest.ini", "tox.ini", "conftest.py"):
            if os.path.exists(os.path.join("/repo", f)):
                shutil.copy(os.path.join("/repo", f), tmp)
        open(os.path.join(tmp, "src", "physt", rel), "w").write(text)
        imp = subprocess.run(["/venv/bin/python", "-c", "import physt, physt.plotting, physt.io"], env=dict(os.environ, PYTHONPATH=os.path.join(tmp, "src")),
                             cwd=tmp, capture_output=True, text=True, timeout=120)
        if imp.returncode != 0:
            return rel, ln, desc, "BROKEN-IMPORT", "", "", ""
        t0 = time.time()
        status, pid, first = run_checks(os.path.join(tmp, "src"), props, scale, 240)
        suite = ""
        if status == "SURVIVED":
            # second look: every registered check at its full quick budget
            rest = [p for p in ALL_PROPS if p not in props]
            status, pid, first = run_checks(os.path.join(tmp, "src"), list(props) + rest, 1.0, 600, shards="4")
            if status == "CAUGHT":
                status = "CAUGHT-FULL"
        if status == "SURVIVED":
            suite = run_suite(os.path.join(tmp, "src"))
        return rel, ln, desc, status, pid, first, suite
    except Exception as exc:  # noqa: BLE001
        return rel, ln, desc, "ERROR", "", repr(exc)[:100], ""
    finally:
        shutil.rmtree(tmp, ignore_errors=True)


def main():
    ap = argparse.ArgumentParser()
    ap.add_argument("--per-file", type=int, default=30)
    ap.add_argument("--seed", type=int, default=1)
    ap.add_argument("--jobs", type=int, default=5)
    ap.add_argument("--scale", type=float, default=0.5)
    ap.add_argument("--files", default="")
    ap.add_argument("--out", default=os.path.join(VERIF, "mutants", "AUTOMUT.md"))
    ap.add_argument("--recheck", default="", help="an earlier report: only its SURVIVED rows are evaluated again (same seed / per-file)")
    args = ap.parse_args()
    rng = random.Random(args.seed)
    files = [f for f in args.files.split(",") if f] or list(FILE_PROPS)
    jobs = []
    for rel in files:
        path = os.path.join(REPO_SRC, "physt", rel)
        src = open(path).read()
        tree = ast.parse(src)
        skip = in_docstring_or_typing(tree)
        cand = [s for s in sites(tree) if s[1] is not None and s[1] not in skip]
        rng.shuffle(cand)
        seen_lines = {}
        picked = []
        for s in cand:
            if seen_lines.get(s[1], 0) >= 2:
                continue
            seen_lines[s[1]] = seen_lines.get(s[1], 0) + 1
            picked.append(s)
            if len(picked) >= args.per_file:
                break
        for idx, ln, desc, how in picked:
            try:
                text = apply(tree, idx, how)
                compile(text, rel, "exec")
            except Exception:  # noqa: BLE001
                continue
            line = src.splitlines()[ln - 1].strip()[:90]
            jobs.append((rel, idx, ln, f"{desc} | `{line}`", how, text, FILE_PROPS[rel], args.scale))
    if args.recheck:
        keep = set()
        for ln_ in open(args.recheck):
            c = [x.strip() for x in ln_.split("|")]
            if len(c) > 4 and c[3] == "SURVIVED":
                keep.add((c[1], c[2]))
        jobs = [j for j in jobs if (f"{j[0]}:{j[2]}", j[3].replace("|", "/")) in keep]
    print(f"{len(jobs)} mutants", flush=True)
    results = []
    with ThreadPoolExecutor(args.jobs) as ex:
        for k, res in enumerate(ex.map(work, jobs)):
            results.append(res)
            print(k + 1, res[0], res[1], res[3], res[4], res[6], flush=True)
    counts = {}
    for r in results:
        counts[r[3]] = counts.get(r[3], 0) + 1
    lines = ["# Automatic mutants vs. the registered quick checks (tools/automut.py)", "",
             f"{len(results)} mutants (seed {args.seed}, up to {args.per_file} per file, case counts scaled by {args.scale}, 2 shards): " +
             ", ".join(f"{k}: {v}" for k, v in sorted(counts.items())), "",
             "CAUGHT = a check of a property anchored in that file printed a VIOLATION at a quarter of the quick budget; CAUGHT-FULL = only the second look (all 20 checks at the full quick budget) did; HARNESS / TIMEOUT / BROKEN-IMPORT = the mutant breaks the "
             "package so badly that the harness cannot run (such a change cannot pass the repository's tests either); SURVIVED = no check noticed "
             "(the last column says whether the repository's own suite does).", "",
             "| file:line | mutation | result | by | first violation / suite |", "|---|---|---|---|---|"]
    for rel, ln, desc, status, pid, first, suite in sorted(results, key=lambda r: (r[3] != "SURVIVED", r[0], r[1])):
        lines.append(f"| {rel}:{ln} | {desc.replace('|', '/')} | {status} | {pid} | {(first or suite).replace('|', '/')} |")
    open(args.out, "w").write("\n".join(lines) + "\n")
    print("\n".join(lines[:4]))


if __name__ == "__main__":
    main()
