#!/venv/bin/python
"""tools/coverage_report.py [IDs…] — diagnostic, not a check: runs the quick tier of the given properties
(default all) with PBT_COVER set, then lists per physt module the executable lines no check reached,
grouped by function.  Output: coverage/REPORT.md (line coverage of src/physt by the generated cases)."""
import ast
import glob
import json
import os
import shutil
import subprocess
import sys
import tempfile

ids = [a.upper() for a in sys.argv[1:]] or [f"C{i:02d}" for i in range(1, 21)]
src = os.environ.get("PBT_SRC", "/repo/src")
root = os.path.join(src, "physt")
tmp = tempfile.mkdtemp(prefix="pbtcov_")
env = dict(os.environ, PBT_COVER=tmp, VERIF_SEED=os.environ.get("VERIF_SEED", "1"))
per_prop = {}
for pid in ids:
    subprocess.run(["/verif/check", pid, "--no-evidence"], env=env, stdout=subprocess.DEVNULL, stderr=subprocess.DEVNULL)
    hit = set()
    for f in glob.glob(os.path.join(tmp, pid + "-*.json")):
        hit |= {tuple(x) for x in json.load(open(f))}
    per_prop[pid] = hit
shutil.rmtree(tmp)
allhit = set().union(*per_prop.values())


def exec_lines(path):
    code = compile(open(path).read(), path, "exec")
    lines = set()
    stack = [code]
    while stack:
        c = stack.pop()
        lines |= {l for _, _, l in c.co_lines() if l}
        stack += [k for k in c.co_consts if hasattr(k, "co_lines")]
    return lines


out = ["# Lines of src/physt reached by the generated cases (quick tier, seed %s)" % env["VERIF_SEED"], ""]
tot_e = tot_h = 0
detail = []
for path in sorted(glob.glob(os.path.join(root, "**", "*.py"), recursive=True)):
    rel = path[len(root) + 1:]
    ex = exec_lines(path)
    hit = {l for f, l in allhit if f == rel}
    tree = ast.parse(open(path).read())
    funcs = []
    for node in ast.walk(tree):
        if isinstance(node, (ast.FunctionDef, ast.AsyncFunctionDef)):
            body = {l for l in ex if node.body[0].lineno <= l <= node.end_lineno}
            # skip docstring-only first statements
            miss = sorted(body - hit)
            if body and miss:
                funcs.append((node.name, node.lineno, len(body), miss))
    e, h = len(ex), len(ex & hit)
    tot_e += e
    tot_h += h
    out.append(f"* `{rel}`: {h}/{e} lines ({100 * h // max(e, 1)}%)")
    for name, ln, nb, miss in sorted(funcs, key=lambda x: x[1]):
        tag = "NEVER ENTERED" if len(miss) == nb else f"{len(miss)}/{nb} lines missed"
        detail.append(f"  - `{rel}:{ln}` `{name}` — {tag}: {miss[:25]}")
out.append("")
out.append(f"Total: {tot_h}/{tot_e} ({100 * tot_h // max(tot_e, 1)}%)")
out += ["", "## Per property (lines reached)", ""] + [f"* {p}: {len(h)}" for p, h in per_prop.items()]
out += ["", "## Functions with lines no case reached", ""] + detail
os.makedirs("/verif/coverage", exist_ok=True)
open("/verif/coverage/REPORT.md", "w").write("\n".join(out) + "\n")
print("\n".join(out[:40]))
