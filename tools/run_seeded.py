#!/venv/bin/python
"""tools/run_seeded.py [seeds]  — runs every seeded change (seeded/*/patch.diff) and every mutant
(mutants/<ID>/*.patch) against the quick check of its property at the given VERIF_SEED values
(default "1 2 3") and writes seeded/RESULTS.md.  /repo is never modified: each patch is applied
to a scratch copy of /repo/src outside /repo and /verif."""
import glob
import json
import os
import sys
from concurrent.futures import ThreadPoolExecutor

sys.path.insert(0, "/verif")
from pbt.selftest import run_one  # noqa: E402

seeds = [int(x) for x in (sys.argv[1].split() if len(sys.argv) > 1 else ["1", "2", "3"])]
only_seeded = "--seeded-only" in sys.argv
jobs = []
for meta in sorted(glob.glob("/verif/seeded/*/meta.json")):
    m = json.load(open(meta))
    if m.get("obsolete"):
        continue
    jobs.append((m["id"], m["property"], os.path.join(os.path.dirname(meta), "patch.diff"), "seeded"))
if not only_seeded:
    for p in sorted(glob.glob("/verif/mutants/*/*.patch")):
        pid = p.split("/")[-2]
        jobs.append((pid + ":" + os.path.basename(p)[:-6], pid, p, "mutant"))


def work(job):
    sid, pid, patch, kind = job
    res = []
    for s in seeds:
        status, out, dt = run_one(pid, patch, extra_env={"VERIF_SEED": str(s), "PBT_QUICK_SHARDS": "2"})
        vio = [ln.strip() for ln in out.splitlines() if ln.startswith("  sub=")]
        res.append((s, status, vio[0] if vio else "", round(dt, 1)))
    return job, res


with ThreadPoolExecutor(6) as ex:
    results = list(ex.map(work, jobs))

lines = ["# Seeded changes and mutants vs. the registered quick checks", "",
         f"Seeds: {seeds}. CAUGHT = exit 1 with a VIOLATION line; MISSED = exit 0.", "",
         "| change | kind | property | " + " | ".join(f"seed {s}" for s in seeds) + " | first violation |", "|---|---|---|" + "---|" * len(seeds) + "---|"]
missed = 0
for (sid, pid, patch, kind), res in results:
    cells = [r[1] for r in res]
    if any(c != "CAUGHT" for c in cells):
        missed += 1
    first = next((r[2] for r in res if r[2]), "")
    lines.append(f"| {sid} | {kind} | {pid} | " + " | ".join(cells) + f" | {first} |")
lines += ["", f"{len(results) - missed}/{len(results)} changes caught at every seed."]
open("/verif/seeded/RESULTS.md", "w").write("\n".join(lines) + "\n")
print("\n".join(l for l in lines if "MISSED" in l or "EXIT" in l or "PATCH" in l))
print(lines[-1])
