#!/bin/sh
# tools/try_mut.sh <file under src/physt> <sed expression> <ID>…  — one-off mutant: scratch copy of /repo/src, sed, quick checks
f=$1; e=$2; shift 2
d=$(mktemp -d /tmp/trymut-XXXX); cp -r /repo/src $d/src; find $d -name __pycache__ -prune -exec rm -rf {} \; 2>/dev/null
sed -i "$e" $d/src/physt/$f
if diff -q /repo/src/physt/$f $d/src/physt/$f >/dev/null; then echo "NO CHANGE by $e"; rm -rf $d; exit 3; fi
PYTHONPATH=$d/src /venv/bin/python -c "import physt, physt.plotting" 2>/dev/null || { echo "BROKEN IMPORT"; rm -rf $d; exit 3; }
res=SURVIVED
for p in "$@"; do
  out=$(PBT_SRC=$d/src VERIF_SEED=${VERIF_SEED:-1} ./check $p --no-evidence 2>&1); rc=$?
  if [ $rc -eq 1 ]; then res="CAUGHT by $p: $(echo "$out" | grep '^  sub=' | head -1)"; break; fi
  if [ $rc -eq 2 ]; then res="HARNESS in $p: $(echo "$out" | tail -2 | head -1 | cut -c1-150)"; break; fi
done
echo "$f [$e] -> $res"
rm -rf $d
